"""
C20 - compiled Hamiltonian MPOs are as compact as the operator allows.

(a) built-in models and optimized molecular constructions, every L >= 2 within dense reach: bond dimension = operator Schmidt rank
(b) the whole C05 chain-list space: bond dimension at any cut <= number of chains with non-zero coefficient
(c) the C16 graph space: simplify never increases a bond dimension
"""

import copy

import numpy as np

from mc import core, dense, symbolic as sym
from mc.core import Space, OutOfDomain
from props import c05, c06, c16

import pytenet as ptn
from pytenet.opchain import OpChain
from pytenet.opgraph import OpGraph
from pytenet.mpo import MPO

ID = 'C20'
LEVEL = 'model_checking'
RULE = ('(a) model x every L>=2 with d^L<=bound x two generic parameter draws; (b) every chain list of the C05 spaces; (c) every initial '
        'graph of the C16 space and its flip; non-trivial = some bond dimension >= 2')
BUDGET = {'quick': 400, 'thorough': 3600}
# singular values above RANK_TOL x largest count towards the rank: rounding noise is ~1e-16, a coupling of 2^-27 next to O(10) terms ~1e-9
RANK_TOL = 1e-13


def schmidt_ranks(M, d, L):
    """Operator Schmidt rank across every cut 1..L-1 of a dense d^L x d^L matrix."""
    T = M.reshape([d] * (2 * L))
    ranks = []
    for k in range(1, L):
        # axes: s_0..s_{L-1}, t_0..t_{L-1}
        left = list(range(0, k)) + list(range(L, L + k))
        right = list(range(k, L)) + list(range(L + k, 2 * L))
        X = np.transpose(T, left + right).reshape(d ** (2 * k), d ** (2 * (L - k)))
        s = np.linalg.svd(X, compute_uv=False)
        ranks.append(int(np.sum(s > RANK_TOL * s[0])) if s.size and s[0] > 0 else 0)
    return ranks


def mpo_schmidt_ranks(A):
    """
    Operator Schmidt ranks across every cut from the MPO tensors alone (no dense matrix, sizes beyond dense reach): own
    canonicalisation - QR sweep to the right, then SVD sweep to the left; the number of singular values above rounding
    (RANK_TOL relative, the threshold of schmidt_ranks) at each cut is the rank.  Cross-checked against schmidt_ranks on every
    case within dense reach.
    """
    T = [np.asarray(a).reshape(a.shape[0] * a.shape[1], a.shape[2], a.shape[3]).transpose(1, 0, 2) for a in A]   # (left, phys, right)
    L = len(T)
    for i in range(L - 1):
        l, p, r = T[i].shape
        Q, R = np.linalg.qr(T[i].reshape(l * p, r))
        T[i] = Q.reshape(l, p, Q.shape[1])
        T[i + 1] = np.einsum('kr,rps->kps', R, T[i + 1])
    ranks = [0] * (L - 1)
    for i in range(L - 1, 0, -1):
        l, p, r = T[i].shape
        U, sv, Vh = np.linalg.svd(T[i].reshape(l, p * r), full_matrices=False)
        k = int(np.sum(sv > RANK_TOL * sv[0])) if sv.size and sv[0] > 0 else 0
        ranks[i - 1] = k
        k = max(k, 1)
        T[i] = Vh[:k].reshape(k, p, r)
        T[i - 1] = np.einsum('lpk,kj->lpj', T[i - 1], U[:, :k] * sv[:k])
    return ranks


def gen_params(rng, n):
    x = rng.uniform(0.3, 1.5, size=n) * rng.choice([-1.0, 1.0], size=n)
    return [float(v) for v in x]


MODELS = ['ising', 'xxz', 'xxz_spin1', 'bose2', 'bose3', 'fermi_hubbard', 'linear_fermionic_c', 'linear_fermionic_a',
          'molecular_opt', 'spin_molecular_opt']
LOCAL_DIM = {'ising': 2, 'xxz': 2, 'xxz_spin1': 3, 'bose2': 2, 'bose3': 3, 'fermi_hubbard': 4, 'linear_fermionic_c': 2,
             'linear_fermionic_a': 2, 'molecular_opt': 2, 'spin_molecular_opt': 4}


TINY = 2.0 ** -27
UNITS = 2.0 ** -60
LAST_PARAMS = []


def build_model(name, L, rng, draw=0):
    """draw 0, 1: generic parameters; 2: the first parameter (coupling / first coefficient) is 2^-27; 3: all parameters in units of 2^-60."""
    def params(n):
        p = gen_params(rng, n)
        if draw == 2:
            p[0] = TINY * (1 if p[0] > 0 else -1)
        if draw == 3:
            p = [x * UNITS for x in p]
        return p
    if name in c06.MODELS:
        # lattice models: constructor and documented formula as in C06 (the parameters are kept for the reference operator)
        p = params(3)
        LAST_PARAMS[:] = p
        return c06.MODELS[name][2](L, p)
    if name.startswith('linear_fermionic'):
        return ptn.linear_fermionic_mpo(params(L), 'c' if name.endswith('_c') else 'a')
    t = rng.normal(size=(L, L))
    v = rng.normal(size=(L, L, L, L))
    if draw == 2:
        t[0, :] *= TINY
        v[0] *= TINY
    if draw == 3:
        t, v = t * UNITS, v * UNITS
    if name == 'molecular_opt':
        return ptn.molecular_hamiltonian_mpo(t, v, optimize=True)
    if name == 'spin_molecular_opt':
        return ptn.spin_molecular_hamiltonian_mpo(t, v, optimize=True)
    raise ValueError(name)


def _model_cases(maxdim):
    for name in MODELS:
        d = LOCAL_DIM[name]
        L = 2
        while d ** L <= maxdim:
            for draw in (0, 1, 2, 3):
                yield {'model': name, 'L': L, 'draw': draw}
            L += 1


# sizes beyond dense reach (judged with the tensor-network rank oracle only)
LARGE_L = {'quick': {'ising': [11, 16, 24], 'xxz': [11, 16, 24], 'xxz_spin1': [7, 12], 'bose2': [11, 16], 'bose3': [7, 12], 'fermi_hubbard': [6, 8, 12],
                     'linear_fermionic_c': [11, 16, 24], 'linear_fermionic_a': [11, 16], 'molecular_opt': [11, 12, 13, 14], 'spin_molecular_opt': [6, 7]},
           'thorough': {'ising': list(range(11, 33)), 'xxz': list(range(11, 33)), 'xxz_spin1': list(range(7, 21)), 'bose2': list(range(11, 25)),
                        'bose3': list(range(7, 17)), 'fermi_hubbard': list(range(6, 17)), 'linear_fermionic_c': list(range(11, 33)),
                        'linear_fermionic_a': list(range(11, 33)), 'molecular_opt': [11, 12, 13, 14, 15, 16], 'spin_molecular_opt': [6, 7, 8]}}


def _large_cases(tier):
    for name in MODELS:
        for L in LARGE_L[tier][name]:
            for draw in ((0, 2) if 'molecular' in name else (0, 1, 2, 3)):
                yield {'model': name, 'L': L, 'draw': draw}


def run_model_case(case, ctx):
    name, L = case['model'], case['L']
    d = LOCAL_DIM[name]
    mpo = build_model(name, L, ctx.rng(case['draw']), case['draw'])
    ctx.cls('parameters:' + ['generic', 'generic', 'first_tiny', 'small_units'][case['draw']])
    ctx.calls += 1
    bd = list(mpo.bond_dims)
    ranks = mpo_schmidt_ranks(mpo.A)
    if d ** L <= 1024:
        # within dense reach both rank oracles are computed and must agree (a disagreement is an error of this harness)
        rd = schmidt_ranks(dense.mpo_to_matrix(mpo.A), d, L)
        if rd != ranks:
            ctx.fail('HARNESS', f'rank oracles disagree: dense {rd} vs tensor-network {ranks}')
            return
        ctx.cls('both_rank_oracles')
        if name in c06.MODELS:
            # "the operator Schmidt rank of the dense operator": the model's documented operator (independent construction of C06),
            # not merely the operator the MPO happens to represent
            Href = c06.MODELS[name][3](L, list(LAST_PARAMS))
            ranks = schmidt_ranks(Href, d, L)
            ctx.cls('rank_of_documented_operator')
    else:
        ctx.cls('beyond_dense_reach')
    ctx.obs(np.asarray(bd))
    ctx.cls('model:' + name)
    ctx.nontrivial = max(bd) >= 2
    ctx.check(bd[0] == 1 and bd[-1] == 1, 'outer_bonds_one', bd)
    ctx.check(bd[1:-1] == ranks, 'bond_dimension_equals_operator_schmidt_rank', f'bond_dims={bd} schmidt_ranks={ranks}')


# types a vanishing coefficient may legitimately have (a chain with such a coefficient is a chain with zero coefficient)
ZERO_TYPES = {'float': 0.0, 'int': 0, 'complex': 0j, 'np.int64': np.int64(0), 'np.complex128': np.complex128(0), 'np.float32': np.float32(0), '-0.0': -0.0}


def run_chain_case(case, ctx):
    L, mode, chains = case['L'], case['mode'], case['chains']
    nz = [c for c in chains if c05.cval(c[2]) != 0]
    if not nz:
        raise OutOfDomain()
    has_zero = len(nz) < len(chains)
    for zt, zero in ZERO_TYPES.items():
        if zt != 'float' and not has_zero:
            break
        ocs = [OpChain(w, q, (c05.cval(c) if c05.cval(c) != 0 else zero), istart) for istart, w, c, q in chains]
        graph = OpGraph.from_opchains(ocs, L, 0)
        ctx.calls += 1
        if has_zero:
            ctx.cls('zero_coefficient_type:' + zt)
        layers = sym.graph_layers(graph)
        if not ctx.check(layers is not None and len(layers) == L + 1, 'graph_layered', None):
            return
        widths = [len(l) for l in layers]
        qd = [0, 0] if mode != 'consistent' else sym.FAITHFUL_QD
        if mode in ('interior', 'interior_neg'):
            bd = widths
        else:
            # (operator labels of the C05 spaces may be arbitrary integers: same assignment of the faithful operators as in C05)
            labels = sorted({o for _, w, _, _ in chains for o in w} | {0})
            opmap = sym.FAITHFUL if all(0 <= o <= 3 for o in labels) else {o: sym.FAITHFUL[abs(o) % 4] for o in labels}
            mpo = MPO.from_opgraph(qd, graph, opmap)
            bd = list(mpo.bond_dims)
        ctx.obs(np.asarray(bd))
        ctx.nontrivial = max(bd) >= 2 or len(nz) >= 2
        ctx.cls(f'nz={len(nz)}:maxbond={max(bd)}')
        if not ctx.check(all(b <= len(nz) for b in bd), 'bond_dimension_at_most_number_of_nonzero_chains',
                         f'bond_dims={bd} nonzero_chains={len(nz)} zero_type={zt}'):
            return


def _graph_cases(tier):
    for d in c16.initial_descs(tier):
        for pre in ('none', 'flip'):
            yield {'graph': d, 'pre': pre}


def run_graph_case(case, ctx):
    g = c16.build_graph(case['graph'])
    if case['pre'] == 'flip':
        g.flip()
    L = len(sym.graph_layers(g)) - 1
    # an MPO can only be formed when the node charges are compatible with the operator map (all zero here);
    # otherwise the bond dimension is read off as the layer width (C05 ties the two together)
    neutral = all(n.qnum == 0 for n in g.nodes.values())
    w0 = [len(l) for l in sym.graph_layers(g)]
    bd0 = list(MPO.from_opgraph([0, 0], g, sym.FAITHFUL).bond_dims) if neutral else w0
    g2 = copy.deepcopy(g)
    g2.simplify()
    ctx.calls += 1
    lay = sym.graph_layers(g2)
    if not ctx.check(lay is not None and len(lay) == L + 1, 'simplified_graph_layered'):
        return
    w1 = [len(l) for l in lay]
    bd1 = list(MPO.from_opgraph([0, 0], g2, sym.FAITHFUL).bond_dims) if neutral else w1
    ctx.obs(np.asarray(bd1))
    ctx.nontrivial = max(bd0) >= 2
    ctx.cls('reduced' if bd1 != bd0 else 'unchanged')
    ctx.cls('mpo_formed' if neutral else 'layer_widths_only')
    ctx.check(len(bd0) == len(bd1) and all(b <= a for a, b in zip(bd0, bd1)), 'simplify_never_increases_a_bond_dimension', f'{bd0} -> {bd1}')
    ctx.check(w1 == bd1 and w0 == bd0, 'bond_dimension_is_layer_width')


def sig(case):
    if 'model' in case:
        return f'{case["model"]}:L={case["L"]}'
    if 'chains' in case:
        return c05.sig(case)
    return 'graph:' + case['pre']


def spaces(tier, seed):
    sp = [Space('models', core.chunked(_model_cases(1024), 1), run_case=run_model_case, sig=sig,
                bounds={'models': MODELS, 'dense_dim<=': 1024, 'L>=': 2, 'parameter_draws': '2 generic, first parameter 2^-27, all parameters in units of 2^-60'}),
          Space('models_large', core.chunked(_large_cases(tier), 1), run_case=run_model_case, sig=sig,
                bounds={'L': LARGE_L[tier], 'rank_oracle': 'own QR/SVD canonicalisation of the MPO tensors (agrees with the dense oracle on every case of the space "models")'})]
    for s in c05.spaces(tier, seed):
        if s._run_chunk is not None:
            continue        # history spaces of C05 are not chain-list programs
        sp.append(Space('chainlists_' + s.name, s.chunks, run_case=run_chain_case, expand=c05.expand, sig=sig, bounds=s.bounds))
    sp.append(Space('graphs', core.chunked(_graph_cases(tier), 200), run_case=run_graph_case, sig=sig,
                    bounds={'initial_graphs_of_C16': True, 'pre': ['none', 'flip']}))
    return sp
