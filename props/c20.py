"""
C20 - compiled Hamiltonian MPOs are as compact as the operator allows.

(a) built-in models and optimized molecular constructions, every L >= 2 within dense reach: bond dimension = operator Schmidt rank
(b) the whole C05 chain-list space: bond dimension at any cut <= number of chains with non-zero coefficient
(c) the C16 graph space: simplify never increases a bond dimension
"""

import copy

import numpy as np

from mc import core, dense, symbolic as sym
from mc.core import Space, OutOfDomain
from props import c05, c16

import pytenet as ptn
from pytenet.opchain import OpChain
from pytenet.opgraph import OpGraph
from pytenet.mpo import MPO

ID = 'C20'
LEVEL = 'model_checking'
RULE = ('(a) model x every L>=2 with d^L<=bound x two generic parameter draws; (b) every chain list of the C05 spaces; (c) every initial '
        'graph of the C16 space and its flip; non-trivial = some bond dimension >= 2')
BUDGET = {'quick': 400, 'thorough': 3600}


def schmidt_ranks(M, d, L):
    """Operator Schmidt rank across every cut 1..L-1 of a dense d^L x d^L matrix."""
    T = M.reshape([d] * (2 * L))
    ranks = []
    for k in range(1, L):
        # axes: s_0..s_{L-1}, t_0..t_{L-1}
        left = list(range(0, k)) + list(range(L, L + k))
        right = list(range(k, L)) + list(range(L + k, 2 * L))
        X = np.transpose(T, left + right).reshape(d ** (2 * k), d ** (2 * (L - k)))
        s = np.linalg.svd(X, compute_uv=False)
        ranks.append(int(np.sum(s > 1e-10 * max(1.0, s[0]))) if s.size and s[0] > 0 else 0)
    return ranks


def gen_params(rng, n):
    x = rng.uniform(0.3, 1.5, size=n) * rng.choice([-1.0, 1.0], size=n)
    return [float(v) for v in x]


MODELS = ['ising', 'xxz', 'xxz_spin1', 'bose2', 'bose3', 'fermi_hubbard', 'linear_fermionic_c', 'linear_fermionic_a',
          'molecular_opt', 'spin_molecular_opt']
LOCAL_DIM = {'ising': 2, 'xxz': 2, 'xxz_spin1': 3, 'bose2': 2, 'bose3': 3, 'fermi_hubbard': 4, 'linear_fermionic_c': 2,
             'linear_fermionic_a': 2, 'molecular_opt': 2, 'spin_molecular_opt': 4}


def build_model(name, L, rng):
    if name == 'ising':
        return ptn.ising_mpo(L, *gen_params(rng, 3))
    if name == 'xxz':
        return ptn.heisenberg_xxz_mpo(L, *gen_params(rng, 3))
    if name == 'xxz_spin1':
        return ptn.heisenberg_xxz_spin1_mpo(L, *gen_params(rng, 3))
    if name == 'bose2':
        return ptn.bose_hubbard_mpo(2, L, *gen_params(rng, 3))
    if name == 'bose3':
        return ptn.bose_hubbard_mpo(3, L, *gen_params(rng, 3))
    if name == 'fermi_hubbard':
        return ptn.fermi_hubbard_mpo(L, *gen_params(rng, 3))
    if name.startswith('linear_fermionic'):
        return ptn.linear_fermionic_mpo(gen_params(rng, L), 'c' if name.endswith('_c') else 'a')
    if name == 'molecular_opt':
        t = rng.normal(size=(L, L))
        v = rng.normal(size=(L, L, L, L))
        return ptn.molecular_hamiltonian_mpo(t, v, optimize=True)
    if name == 'spin_molecular_opt':
        t = rng.normal(size=(L, L))
        v = rng.normal(size=(L, L, L, L))
        return ptn.spin_molecular_hamiltonian_mpo(t, v, optimize=True)
    raise ValueError(name)


def _model_cases(maxdim):
    for name in MODELS:
        d = LOCAL_DIM[name]
        L = 2
        while d ** L <= maxdim:
            for draw in (0, 1):
                yield {'model': name, 'L': L, 'draw': draw}
            L += 1


def run_model_case(case, ctx):
    name, L = case['model'], case['L']
    d = LOCAL_DIM[name]
    mpo = build_model(name, L, ctx.rng(case['draw']))
    ctx.calls += 1
    bd = list(mpo.bond_dims)
    M = dense.mpo_to_matrix(mpo.A)
    ranks = schmidt_ranks(M, d, L)
    ctx.obs(np.asarray(bd))
    ctx.cls('model:' + name)
    ctx.nontrivial = max(bd) >= 2
    ctx.check(bd[0] == 1 and bd[-1] == 1, 'outer_bonds_one', bd)
    ctx.check(bd[1:-1] == ranks, 'bond_dimension_equals_operator_schmidt_rank', f'bond_dims={bd} schmidt_ranks={ranks}')


def run_chain_case(case, ctx):
    L, mode, chains = case['L'], case['mode'], case['chains']
    nz = [c for c in chains if c05.cval(c[2]) != 0]
    if not nz:
        raise OutOfDomain()
    ocs = [OpChain(w, q, c05.cval(c), istart) for istart, w, c, q in chains]
    graph = OpGraph.from_opchains(ocs, L, 0)
    ctx.calls += 1
    layers = sym.graph_layers(graph)
    if not ctx.check(layers is not None and len(layers) == L + 1, 'graph_layered', None):
        return
    widths = [len(l) for l in layers]
    qd = [0, 0] if mode != 'consistent' else sym.FAITHFUL_QD
    if mode == 'interior':
        bd = widths
    else:
        mpo = MPO.from_opgraph(qd, graph, sym.FAITHFUL)
        bd = list(mpo.bond_dims)
    ctx.obs(np.asarray(bd))
    ctx.nontrivial = max(bd) >= 2 or len(nz) >= 2
    ctx.cls(f'nz={len(nz)}:maxbond={max(bd)}')
    ctx.check(all(b <= len(nz) for b in bd), 'bond_dimension_at_most_number_of_nonzero_chains', f'bond_dims={bd} nonzero_chains={len(nz)}')


def _graph_cases(tier):
    for d in c16.initial_descs(tier):
        for pre in ('none', 'flip'):
            yield {'graph': d, 'pre': pre}


def run_graph_case(case, ctx):
    g = c16.build_graph(case['graph'])
    if case['pre'] == 'flip':
        g.flip()
    L = len(sym.graph_layers(g)) - 1
    # an MPO can only be formed when the node charges are compatible with the operator map (all zero here);
    # otherwise the bond dimension is read off as the layer width (C05 ties the two together)
    neutral = all(n.qnum == 0 for n in g.nodes.values())
    w0 = [len(l) for l in sym.graph_layers(g)]
    bd0 = list(MPO.from_opgraph([0, 0], g, sym.FAITHFUL).bond_dims) if neutral else w0
    g2 = copy.deepcopy(g)
    g2.simplify()
    ctx.calls += 1
    lay = sym.graph_layers(g2)
    if not ctx.check(lay is not None and len(lay) == L + 1, 'simplified_graph_layered'):
        return
    w1 = [len(l) for l in lay]
    bd1 = list(MPO.from_opgraph([0, 0], g2, sym.FAITHFUL).bond_dims) if neutral else w1
    ctx.obs(np.asarray(bd1))
    ctx.nontrivial = max(bd0) >= 2
    ctx.cls('reduced' if bd1 != bd0 else 'unchanged')
    ctx.cls('mpo_formed' if neutral else 'layer_widths_only')
    ctx.check(len(bd0) == len(bd1) and all(b <= a for a, b in zip(bd0, bd1)), 'simplify_never_increases_a_bond_dimension', f'{bd0} -> {bd1}')
    ctx.check(w1 == bd1 and w0 == bd0, 'bond_dimension_is_layer_width')


def sig(case):
    if 'model' in case:
        return f'{case["model"]}:L={case["L"]}'
    if 'chains' in case:
        return c05.sig(case)
    return 'graph:' + case['pre']


def spaces(tier, seed):
    sp = [Space('models', core.chunked(_model_cases(1024), 1), run_case=run_model_case, sig=sig,
                bounds={'models': MODELS, 'dense_dim<=': 1024, 'L>=': 2, 'parameter_draws': 2})]
    for s in c05.spaces(tier, seed):
        if s._run_chunk is not None:
            continue        # history spaces of C05 are not chain-list programs
        sp.append(Space('chainlists_' + s.name, s.chunks, run_case=run_chain_case, expand=c05.expand, sig=sig, bounds=s.bounds))
    sp.append(Space('graphs', core.chunked(_graph_cases(tier), 200), run_case=run_graph_case, sig=sig,
                    bounds={'initial_graphs_of_C16': True, 'pre': ['none', 'flip']}))
    return sp
