"""
C02 - quantum-number block sparsity is an invariant of every operation sequence.

Explicit-state exploration (E2): worlds (psi, phi : MPS ; H, K : MPO), BFS over all histories up to a depth bound over a
menu of the real public operations.  Invariant evaluated on every object after every transition by an independent mask
check (mc.dense), plus length of every charge list, finiteness, and conservation of the boundary charges.
"""

import copy

import numpy as np

from mc import core, palette, dense
from mc.core import Space
from mc.history import System, explore_from, replay_history

import pytenet as ptn
from pytenet.mps import MPS, merge_mps_tensor_pair, split_mps_tensor
from pytenet.mpo import MPO

ID = 'C02'
LEVEL = 'model_checking'
RULE = ('BFS over all operation sequences up to the depth bound from each initial world; a state is the exact byte content of all tensors '
        'and charge lists; distinct_nontrivial = number of distinct states reached (all worlds carry non-trivial charges except the Ising one)')
BUDGET = {'quick': 500, 'thorough': 5000}
MAXBOND = 48


class World:
    def __init__(self, name, psi, phi, H, K, ctor):
        self.name, self.psi, self.phi, self.H, self.K, self.ctor = name, psi, phi, H, K, ctor


def _mps(rng, qd, qD):
    m = MPS(qd, qD, fill='postpone')
    m.A = palette.mps_tensors(rng, qd, qD, 'complex')
    return m


CTORS = {
    'xxz3': lambda: ptn.heisenberg_xxz_mpo(3, 1.0, 0.7, 0.2),
    # same operator; the state tensors carry entries of size 2^-20 (state norm ~ 2^-60: non-zero, far below any absolute threshold)
    'xxz3_tiny': lambda: ptn.heisenberg_xxz_mpo(3, 1.0, 0.7, 0.2),
    'ising3': lambda: ptn.ising_mpo(3, 1.0, 0.4, 0.6),
    'fh2': lambda: ptn.fermi_hubbard_mpo(2, 1.0, 2.5, 0.3),
    'bh3': lambda: ptn.bose_hubbard_mpo(3, 3, 0.8, 1.5, 0.2),
    'xxz1_2': lambda: ptn.heisenberg_xxz_spin1_mpo(2, 1.0, 0.5, 0.1),
    'linf3': lambda: ptn.linear_fermionic_mpo([0.7, -0.4, 1.1], 'c'),
    'xxz2': lambda: ptn.heisenberg_xxz_mpo(2, 1.0, 0.7, 0.2),
    'xxz4': lambda: ptn.heisenberg_xxz_mpo(4, 1.0, 0.7, 0.2),
    'mol4': lambda: ptn.molecular_hamiltonian_mpo(np.arange(16.).reshape(4, 4) / 7 + np.arange(16.).reshape(4, 4).T / 7,
                                                  np.zeros((4, 4, 4, 4)), optimize=True),
}


def build_world(desc):
    name = desc['world']
    rng = np.random.default_rng([17, core.key64(name) & 0xffffffff])
    K = CTORS[name]()
    qd = [int(x) for x in K.qd]
    L = K.nsites
    if name in ('xxz3', 'xxz2', 'xxz4', 'xxz3_tiny'):
        tot = 1 if L % 2 else 0
        al = palette.reachable_alphabets(L, qd, 0, tot)
        qa = [[0]] + [list(al[i]) for i in range(1, L)] + [[tot]]
        qb = [[0]] + [list(reversed(al[i])) + [al[i][0]] for i in range(1, L)] + [[tot]]
    elif name == 'ising3':
        qa = [[0], [0, 0], [0, 0], [0]]
        qb = [[0], [0], [0, 0, 0], [0]]
    elif name == 'fh2':
        # total: one up + one down particle: N=2, S=0 -> encoded
        tot = (2 << 16) + 0
        al = palette.reachable_alphabets(L, qd, 0, tot)
        qa = [[0], list(al[1]), [tot]]
        qb = [[0], list(reversed(al[1]))[:3], [tot]]
    elif name == 'bh3':
        tot = 3
        al = palette.reachable_alphabets(L, qd, 0, tot)
        qa = [[0]] + [list(al[i]) for i in range(1, L)] + [[tot]]
        qb = [[0]] + [list(al[i])[:2] for i in range(1, L)] + [[tot]]
    elif name == 'xxz1_2':
        tot = 0
        al = palette.reachable_alphabets(L, qd, 0, tot)
        qa = [[0], list(al[1]), [tot]]
        qb = [[0], list(al[1])[::-1] + [al[1][0]], [tot]]
    elif name in ('linf3', 'mol4'):
        tot = 1 if name == 'linf3' else 2
        al = palette.reachable_alphabets(L, qd, 0, tot)
        qa = [[0]] + [list(al[i]) for i in range(1, L)] + [[tot]]
        qb = [[0]] + [list(al[i])[::-1] for i in range(1, L)] + [[tot]]
    else:
        raise ValueError(name)
    psi = _mps(rng, qd, qa)
    phi = _mps(rng, qd, qb)
    if name.endswith('_tiny'):
        psi.A = [a * 2.0 ** -20 for a in psi.A]
        phi.A = [a * 2.0 ** -20 for a in phi.A]
    H = CTORS[name]()
    return World(name, psi, phi, H, K, name)


def _bytes(m):
    return tuple(np.ascontiguousarray(a).tobytes() for a in m.A) + tuple(np.asarray(q).tobytes() for q in m.qD) + (np.asarray(m.qd).tobytes(),)


def _is_hermitian_neutral(K):
    return int(np.asarray(K.qD[0])[0]) == int(np.asarray(K.qD[-1])[0])


def _norm(m):
    return float(np.linalg.norm(dense.mps_to_vector(m.A)))


def _nonzero(m):
    """Non-zero state: norm above rounding level relative to the size of its tensors (no absolute threshold)."""
    tscale = float(np.prod([np.linalg.norm(a) for a in m.A]))
    return tscale > 0 and _norm(m) > 1e-12 * tscale


def _maxbond(m):
    return max(a.shape[-1] for a in m.A)


def _same_qd(a, b):
    return list(np.asarray(a.qd).tolist()) == list(np.asarray(b.qd).tolist())


def _same_boundary(a, b):
    # operands must carry the same physical quantum numbers (documented precondition, asserted by the library)
    if list(np.asarray(a.qd).tolist()) != list(np.asarray(b.qd).tolist()):
        return False
    return (list(np.asarray(a.qD[0]).tolist()) == list(np.asarray(b.qD[0]).tolist())
            and list(np.asarray(a.qD[-1]).tolist()) == list(np.asarray(b.qD[-1]).tolist()))


class MPSSystem(System):
    def __init__(self, full_menu=True):
        self.full = full_menu

    def canon(self, w):
        return (_bytes(w.psi), _bytes(w.H), _bytes(w.phi))

    def enabled(self, w):
        T = []
        nz = _nonzero(w.psi)
        small = _maxbond(w.psi) <= MAXBOND
        hermK = w.name not in ('linf3',) and _same_qd(w.K, w.psi)
        L = w.psi.nsites

        def add(label, ok, fn):
            T.append((label, ok, fn))

        for mode in ('left', 'right'):
            add(('psi.orthonormalize', mode), True, lambda W, c, m=mode: _keep_boundary(W, c, lambda: W.psi.orthonormalize(mode=m)))
            for tol in (0.0, 0.2):
                add(('psi.compress', tol, mode), nz, lambda W, c, m=mode, t=tol: _keep_boundary(W, c, lambda: W.psi.compress(t, mode=m)))
            add(('H.orthonormalize', mode), True, lambda W, c, m=mode: W.H.orthonormalize(mode=m) and None)
        add(('psi=psi+phi',), small and _same_boundary(w.psi, w.phi), lambda W, c: setattr(W, 'psi', W.psi + W.phi))
        add(('psi=phi-psi',), small and _same_boundary(w.psi, w.phi), lambda W, c: setattr(W, 'psi', W.phi - W.psi))
        add(('psi=apply(H,psi)',), _maxbond(w.psi) * _maxbond(w.H) <= MAXBOND and _same_qd(w.H, w.psi), lambda W, c: setattr(W, 'psi', ptn.apply_operator(W.H, W.psi)))
        add(('H=H+K',), _maxbond(w.H) <= MAXBOND and _same_boundary(w.H, w.K), lambda W, c: setattr(W, 'H', W.H + W.K))
        add(('H=H-K',), _maxbond(w.H) <= MAXBOND and _same_boundary(w.H, w.K), lambda W, c: setattr(W, 'H', W.H - W.K))
        add(('H=K@K',), True, lambda W, c: setattr(W, 'H', W.K @ W.K))
        for tol in (0.0, 1e-3):
            add(('tdvp_twosite', tol), nz and small and hermK and L >= 2,
                lambda W, c, t=tol: _keep_boundary(W, c, lambda: ptn.integrate_local_twosite(W.K, W.psi, 0.1j, 1, numiter_lanczos=4, tol_split=t)))
        add(('tdvp_singlesite',), nz and small and hermK,
            lambda W, c: _keep_boundary(W, c, lambda: ptn.integrate_local_singlesite(W.K, W.psi, 0.1j, 1, numiter_lanczos=4)))
        add(('dmrg_singlesite',), nz and small and hermK,
            lambda W, c: _keep_boundary(W, c, lambda: ptn.calculate_ground_state_local_singlesite(W.K, W.psi, 1, numiter_lanczos=4)))
        add(('dmrg_twosite',), nz and small and hermK and L >= 2,
            lambda W, c: _keep_boundary(W, c, lambda: ptn.calculate_ground_state_local_twosite(W.K, W.psi, 1, numiter_lanczos=4)))
        add(('split_merge01',), L >= 2 and nz, lambda W, c: _split_merge(W))
        add(('psi=from_vector',), not np.any(np.asarray(w.psi.qd)) and small, lambda W, c: _from_vector(W))
        add(('psi=from_vector', 0.2), not np.any(np.asarray(w.psi.qd)) and small and nz, lambda W, c: _from_vector(W, 0.2))
        add(('phi=MPS(fill)',), True, lambda W, c: setattr(W, 'phi', MPS(W.phi.qd, W.phi.qD, fill=0.5)))
        add(('H=MPO(fill)',), _maxbond(w.H) <= MAXBOND, lambda W, c: setattr(W, 'H', MPO(W.H.qd, W.H.qD, fill=1.0)))
        add(('K=constructor',), True, lambda W, c: setattr(W, 'K', CTORS[W.ctor]()))
        add(('psi.zero_qnumbers',), bool(np.any(np.asarray(w.psi.qd))), lambda W, c: W.psi.zero_qnumbers() and None)
        add(('H.zero_qnumbers',), bool(np.any(np.asarray(w.H.qd))), lambda W, c: W.H.zero_qnumbers() and None)
        add(('phi=MPS(random)',), True, lambda W, c: setattr(W, 'phi', MPS(W.phi.qd, W.phi.qD, fill='random', rng=np.random.default_rng(3))))
        add(('H=MPO(random)',), _maxbond(w.H) <= MAXBOND, lambda W, c: setattr(W, 'H', MPO(W.H.qd, W.H.qD, fill='random', rng=np.random.default_rng(4))))
        return T

    def check_state(self, w, ctx):
        for name, obj, is_mps in (('psi', w.psi, True), ('phi', w.phi, True), ('H', w.H, False), ('K', w.K, False)):
            A, qd, qD = obj.A, obj.qd, obj.qD
            if not ctx.check(len(qD) == len(A) + 1, f'{name}:one_charge_list_per_bond', f'{len(qD)} lists for {len(A)} tensors'):
                continue
            ok = True
            for i, a in enumerate(A):
                dl, dr = (a.shape[1], a.shape[2]) if is_mps else (a.shape[2], a.shape[3])
                ok &= ctx.check(len(qD[i]) == dl and len(qD[i + 1]) == dr and a.shape[0] == len(qd),
                                f'{name}:charge_list_length_equals_tensor_dimension', f'site {i}: shape {a.shape} lists {len(qD[i])},{len(qD[i+1])}')
                ok &= ctx.check(bool(np.all(np.isfinite(a))), f'{name}:entries_finite', f'site {i}')
            if not ok:
                continue
            try:
                qDi = [np.asarray(q, dtype=np.int64) for q in qD]
                bad = dense.mps_masks_ok(A, qd, qDi) if is_mps else dense.mpo_masks_ok(A, qd, qDi)
            except Exception as e:  # noqa: BLE001
                ctx.fail(f'{name}:charge_lists_are_integer_sequences', repr(e)[:100])
                continue
            ctx.check(not bad, f'{name}:nonzero_entries_obey_charge_rule', f'(site, violating entries): {bad[:3]}')

    def check(self, before, after, label, info, ctx):
        if info is not None and info.get('boundary_changed'):
            ctx.fail('boundary_charges_unchanged_for_nonzero_state', info['boundary_changed'])


def _keep_boundary(W, ctx, call):
    nz = _nonzero(W.psi)
    b0 = (list(np.asarray(W.psi.qD[0]).tolist()), list(np.asarray(W.psi.qD[-1]).tolist()))
    call()
    b1 = (list(np.asarray(W.psi.qD[0]).tolist()), list(np.asarray(W.psi.qD[-1]).tolist()))
    if nz and b0 != b1:
        return {'boundary_changed': f'{b0} -> {b1}'}
    return None


def _split_merge(W):
    psi = W.psi
    Am = merge_mps_tensor_pair(psi.A[0], psi.A[1])
    A0, A1, qb = split_mps_tensor(Am, psi.qd, psi.qd, [psi.qD[0], psi.qD[2]], 'sqrt', tol=0.05)
    psi.A[0], psi.A[1], psi.qD[1] = A0, A1, qb
    return None


def _from_vector(W, tol=0):
    v = W.psi.as_vector()
    W.psi = MPS.from_vector(len(W.psi.qd), W.psi.nsites, v, tol)
    return None


SYSTEM = MPSSystem()


def _run_chunk(chunk, seed):
    desc, depth = chunk
    try:
        _build_prefixed(desc)
    except Exception:  # noqa: BLE001  - the failing first operation is reported by the root chunk of this world
        r = core.ChunkResult()
        r.extra['prefix_not_buildable'] += 1
        return r
    return explore_from(SYSTEM, desc, _build_prefixed, depth, seed, 'mps_histories')


def _build_prefixed(desc):
    """Initial world, optionally advanced by a fixed first operation (used to shard the BFS by first transition)."""
    w = build_world(desc)
    for label in desc.get('prefix', []):
        lt = tuple(label)
        match = [(l, ok, fn) for (l, ok, fn) in SYSTEM.enabled(w) if tuple(l) == lt]
        l, ok, fn = match[0]
        fn(w, None)
    return w


def replay_case(space, case, seed):
    return replay_history(SYSTEM, case['init'], _build_prefixed, case['ops'], seed, 'mps_histories')


def sig(case):
    return case['init']['world'] + ':' + '>'.join(str(o[0]) for o in case['init'].get('prefix', []) + case['ops'])


def spaces(tier, seed):
    worlds = ['xxz3', 'xxz3_tiny', 'ising3', 'fh2', 'bh3', 'xxz1_2', 'linf3', 'xxz2', 'mol4'] if tier == 'quick' else \
        ['xxz3', 'xxz3_tiny', 'ising3', 'fh2', 'bh3', 'xxz1_2', 'linf3', 'xxz2', 'xxz4', 'mol4']
    depth = 3 if tier == 'quick' else 4
    chunks = []
    for wn in worlds:
        w = build_world({'world': wn})
        # shard by first transition: depth-1 histories from the state reached by each enabled first operation, plus the root itself
        chunks.append(({'world': wn}, 1))
        for (label, ok, fn) in SYSTEM.enabled(w):
            if ok:
                chunks.append(({'world': wn, 'prefix': [list(label)]}, depth - 1))
    return [Space('mps_histories', chunks, run_chunk=_run_chunk, sig=sig,
                  bounds={'worlds': worlds, 'depth': depth, 'menu_size': 30, 'max_bond_guard': MAXBOND,
                          'menu': ['psi.orthonormalize(l/r)', 'psi.compress(tol 0/0.2, l/r)', 'H.orthonormalize(l/r)', 'psi=psi+phi', 'psi=phi-psi',
                                   'psi=apply(H,psi)', 'H=H+K', 'H=H-K', 'H=K@K', 'tdvp two-site (tol 0/1e-3)', 'tdvp single-site',
                                   'dmrg single-site', 'dmrg two-site', 'split/merge sites 0,1', 'psi=from_vector(as_vector, tol 0 / 0.2)', 'phi=MPS(qd,qD,fill=0.5)', 'H=MPO(qd,qD,fill=1.0)', 'K=constructor', 'psi.zero_qnumbers', 'H.zero_qnumbers', 'phi=MPS(qd,qD,random)', 'H=MPO(qd,qD,random)']})]
