"""
C16 - operator-graph rewrites preserve the denoted operator and graph consistency.

Explicit-state search on the real OpGraph: BFS over sequences of
  simplify | merge_edges(e1,e2,dir) for every mergeable pair | rename_node_id | rename_edge_id | flip | add(other)
from every small layered graph (scrambled, non-contiguous, colliding ids).
Invariant per transition: own consistency check and is_consistent(); path polynomial unchanged (rewrites),
reversed (flip), exact sum (add); `other` untouched; simplify never increases node/edge counts and is idempotent.
"""

import copy
import itertools

from mc import core, symbolic as sym
from mc.core import Space
from mc.history import System, explore_from, replay_history

from pytenet.opgraph import OpGraph, OpGraphNode, OpGraphEdge

ID = 'C16'
LEVEL = 'model_checking'
RULE = ('BFS over rewrite sequences up to the depth bound from every layered graph within the bounds; states de-duplicated by '
        'exact canonical form including ids; distinct_nontrivial = number of distinct canonical states reached (all initial graphs '
        'have >= 1 edge, states with a single edge are counted too)')
BUDGET = {'quick': 400, 'thorough': 3600}

EDGE_KINDS = {
    'a': [(1, 1.0)],
    'b': [(2, 1.0)],
    '2a': [(1, 2.0)],
    'a-b': [(1, 1.0), (2, -1.0)],
    'a~': [(1, 1.0 + 2.0 ** -27)],     # differs from 'a' by 7.5e-9: equal only under a tolerant comparison
    'ia': [(1, 1j)],                   # complex coefficient: merges with 'a' into (1+1j) a, with '-ia' it would cancel
}
# scrambled, non-contiguous ids
NODE_IDS = [7, 3, 12, 5, 9, 20, 1, 15]
EDGE_IDS = [10, 4, 8, 2, 13, 6, 21, 0, 17, 11, 5, 30, 25, 19, 14, 3]


def build_graph(desc, nid_pool=NODE_IDS, eid_pool=EDGE_IDS):
    """
    desc = {'widths': [w1, ..], 'charges': [[..layer1..], ..], 'edges': [[(i, j, kind), ...] per edge layer]}
    layers: start | inner layers | end.
    """
    widths = [1] + list(desc['widths']) + [1]
    nit = iter(nid_pool)
    layers = []
    nodes = {}
    for li, w in enumerate(widths):
        lay = []
        for k in range(w):
            nid = next(nit)
            q = 0 if li in (0, len(widths) - 1) else desc['charges'][li - 1][k]
            nodes[nid] = OpGraphNode(nid, [], [], q)
            lay.append(nid)
        layers.append(lay)
    g = OpGraph(list(nodes.values()), [], [layers[0][0], layers[-1][0]])
    eit = iter(eid_pool)
    for li, elist in enumerate(desc['edges']):
        for (i, j, kind) in elist:
            g.add_connect_edge(OpGraphEdge(next(eit), [layers[li][i], layers[li + 1][j]], EDGE_KINDS[kind]))
    return g


def _edge_layer_choices(w0, w1, kinds, allow_parallel):
    """All assignments of {none|kind|(kind,kind2)} to the w0*w1 node pairs such that no node is dangling."""
    pairs = [(i, j) for i in range(w0) for j in range(w1)]
    opts = [None] + [(k,) for k in kinds]
    if allow_parallel:
        opts += [(k1, k2) for k1, k2 in itertools.combinations_with_replacement(kinds, 2)]
    for combo in itertools.product(opts, repeat=len(pairs)):
        used0 = {p[0] for p, c in zip(pairs, combo) if c}
        used1 = {p[1] for p, c in zip(pairs, combo) if c}
        if len(used0) != w0 or len(used1) != w1:
            continue
        yield [(i, j, k) for (i, j), c in zip(pairs, combo) if c for k in c]


def initial_descs(tier):
    kinds = ['a', 'b', '2a', 'a-b']
    kinds_t = kinds + ['a~', 'ia']
    out = []
    # L = 1
    for el in _edge_layer_choices(1, 1, kinds_t, True):
        out.append({'widths': [], 'charges': [], 'edges': [el]})
    # L = 2
    for w in (1, 2):
        for ch in itertools.product((0, 1), repeat=w):
            for e0 in _edge_layer_choices(1, w, kinds_t if w == 1 else kinds, tier != 'quick' and w == 1):
                for e1 in _edge_layer_choices(w, 1, kinds_t if w == 1 else kinds, tier != 'quick' and w == 1):
                    out.append({'widths': [w], 'charges': [list(ch)], 'edges': [e0, e1]})
    for ch in itertools.product((0, 1), repeat=2):
        out.append({'widths': [2], 'charges': [list(ch)], 'edges': [[(0, 0, 'a'), (0, 1, 'a~')], [(0, 0, 'b'), (1, 0, 'b')]]})
        out.append({'widths': [2], 'charges': [list(ch)], 'edges': [[(0, 0, 'b'), (0, 1, 'b')], [(0, 0, 'a~'), (1, 0, 'a')]]})
    # L = 3 (smaller edge alphabet)
    k3 = ['a', 'b']
    wl = [(1, 1), (1, 2), (2, 1)] if tier == 'quick' else [(1, 1), (1, 2), (2, 1), (2, 2)]
    for (w1, w2) in wl:
        chs = [((0,) * w1, (0,) * w2)] if tier == 'quick' else list(itertools.product(itertools.product((0, 1), repeat=w1), itertools.product((0, 1), repeat=w2)))
        if tier != 'quick' and (w1, w2) == (2, 2):
            chs = [((0, 0), (0, 0)), ((0, 1), (0, 0)), ((0, 0), (0, 1)), ((0, 1), (0, 1))]
        for (c1, c2) in chs:
            for e0 in _edge_layer_choices(1, w1, k3, False):
                for e1 in _edge_layer_choices(w1, w2, k3, False):
                    for e2 in _edge_layer_choices(w2, 1, k3, False):
                        out.append({'widths': [w1, w2], 'charges': [list(c1), list(c2)], 'edges': [e0, e1, e2]})
    return out


def others_for(L):
    """Fixed 'other' graphs of length L whose ids collide with the pools above."""
    if L == 1:
        ds = [{'widths': [], 'charges': [], 'edges': [[(0, 0, 'a')]]},
              {'widths': [], 'charges': [], 'edges': [[(0, 0, 'b'), (0, 0, 'a-b')]]}]
    elif L == 2:
        ds = [{'widths': [1], 'charges': [[0]], 'edges': [[(0, 0, 'a')], [(0, 0, 'b')]]},
              {'widths': [2], 'charges': [[1, 0]], 'edges': [[(0, 0, 'a'), (0, 1, 'a')], [(0, 0, 'b'), (1, 0, 'b')]]}]
    else:
        ds = [{'widths': [1, 1], 'charges': [[0], [0]], 'edges': [[(0, 0, 'a')], [(0, 0, 'a')], [(0, 0, 'b')]]},
              {'widths': [2, 1], 'charges': [[0, 1], [0]], 'edges': [[(0, 0, 'a'), (0, 1, 'b')], [(0, 0, 'b'), (1, 0, 'b')], [(0, 0, 'a')]]}]
    # same node-id pool (collides fully), shifted edge-id pool (collides partly) ...
    out = [build_graph(d, nid_pool=NODE_IDS, eid_pool=EDGE_IDS[2:] + [40, 41]) for d in ds]
    # ... and one graph whose node and edge ids are completely disjoint from everything else
    out.append(build_graph(ds[1], nid_pool=list(range(100, 120)), eid_pool=list(range(200, 230))))
    return out


def canon_graph(g):
    return (tuple(g.nid_terminal),
            tuple(sorted((n.nid, n.qnum, tuple(n.eids[0]), tuple(n.eids[1])) for n in g.nodes.values())),
            tuple(sorted((e.eid, tuple(e.nids), tuple(e.opics)) for e in g.edges.values())),
            tuple(g.nodes.keys()), tuple(g.edges.keys()))


def mergeable_pairs(g):
    """Every ordered pair (e1, e2, direction) satisfying the documented precondition of merge_edges."""
    out = []
    for d in (0, 1):
        for n in g.nodes.values():
            eids = n.eids[1 - d]
            for e1, e2 in itertools.permutations(eids, 2):
                E1, E2 = g.edges[e1], g.edges[e2]
                if E1.nids[1 - d] == E2.nids[1 - d]:
                    out.append((e1, e2, d))
                    continue
                if E1.opics != E2.opics:
                    continue
                n1, n2 = g.nodes[E1.nids[1 - d]], g.nodes[E2.nids[1 - d]]
                if len(n1.eids[d]) != 1 or len(n2.eids[d]) != 1 or n1.qnum != n2.qnum:
                    continue
                # upstream nodes must not be terminals of the graph (merging a terminal away is outside the contract)
                if n2.nid in g.nid_terminal or n1.nid in g.nid_terminal:
                    continue
                out.append((e1, e2, d))
    return out


class GraphSystem(System):
    def __init__(self, tier):
        self.tier = tier
        self._others = {}

    def others(self, L):
        if L not in self._others:
            self._others[L] = others_for(L)
        return self._others[L]

    def canon(self, g):
        return canon_graph(g)

    def enabled(self, g):
        T = []
        T.append((('simplify',), True, lambda w, ctx: w.simplify() and None))
        for (e1, e2, d) in mergeable_pairs(g):
            T.append((('merge_edges', e1, e2, d), True, (lambda w, ctx, a=(e1, e2, d): w.merge_edges(*a))))
        nids = sorted(g.nodes)
        eids = sorted(g.edges)
        L = len(sym.graph_layers(g)) - 1
        for nid in nids:
            tgts = (max(nids) + 1, -3, 33) if nid in (nids[0], g.nid_terminal[1]) else (max(nids) + 1,)
            for tgt in tgts:
                T.append((('rename_node_id', nid, tgt), tgt not in g.nodes, (lambda w, ctx, a=(nid, tgt): w.rename_node_id(*a))))
        for eid in eids:
            tgts = (max(eids) + 1, -3, 41) if eid in (eids[0], eids[-1]) else (max(eids) + 1,)
            for tgt in tgts:
                T.append((('rename_edge_id', eid, tgt), tgt not in g.edges, (lambda w, ctx, a=(eid, tgt): w.rename_edge_id(*a))))
        T.append((('flip',), True, lambda w, ctx: w.flip()))
        big = len(g.edges) > 12
        T.append((('add', 'self'), not big, lambda w, ctx: _do_add(w, copy.deepcopy(w))))
        for k in range(3):
            T.append((('add', k), not big, (lambda w, ctx, k=k, L=L: _do_add(w, copy.deepcopy(self.others(L)[k])))))
        return T

    def check_state(self, g, ctx):
        bad = sym.graph_consistency(g)
        ctx.check(not bad, 'graph_consistent_own_check', bad[:2])
        ctx.check(g.is_consistent(), 'graph_is_consistent_method')

    def check(self, before, after, label, info, ctx):
        op = label[0]
        p0 = sym.graph_poly(before)
        if sym.graph_consistency(after):
            return   # reported by check_state
        p1 = sym.graph_poly(after)
        if op in ('simplify', 'merge_edges', 'rename_node_id', 'rename_edge_id'):
            ctx.check(sym.pequal(p0, p1), f'{op}_preserves_operator', sym.pdiff(p1, p0))
        if op == 'flip':
            rev = {tuple(reversed(w)): c for w, c in p0.items()}
            ctx.check(sym.pequal(rev, p1), 'flip_reverses_every_term', sym.pdiff(p1, rev))
        if op == 'add':
            other, canon_before, p_other = info
            if not ctx.check(canon_graph(other) == canon_before, 'add_leaves_other_untouched'):
                return
            ctx.check(sym.pequal(sym.padd(p0, p_other), p1), 'add_is_exact_sum', sym.pdiff(p1, sym.padd(p0, p_other)))
            shared = [k for k in after.nodes if any(after.nodes[k] is n for n in other.nodes.values())] + \
                     [k for k in after.edges if any(after.edges[k] is e for e in other.edges.values())]
            ctx.check(not shared, 'sum_shares_no_node_or_edge_object_with_other', shared[:3])
        if op in ('simplify', 'add'):
            # after simplify (add ends with simplify) a second simplify must not change anything
            g2 = copy.deepcopy(after)
            g2.simplify()
            ctx.check(canon_graph(g2) == canon_graph(after), 'simplify_idempotent')
        if op == 'simplify':
            ctx.check(len(after.nodes) <= len(before.nodes) and len(after.edges) <= len(before.edges), 'simplify_does_not_grow',
                      f'{len(before.nodes)},{len(before.edges)} -> {len(after.nodes)},{len(after.edges)}')
            # layer widths never grow (C20 part c)
            l0, l1 = sym.graph_layers(before), sym.graph_layers(after)
            ctx.check(len(l0) == len(l1) and all(len(a) >= len(b) for a, b in zip(l0, l1)), 'simplify_never_widens_a_layer')


def _do_add(w, other):
    cb = canon_graph(other)
    p_other = sym.graph_poly(other)
    w.add(other)
    return other, cb, p_other


SYSTEM = None


def _run_chunk(chunk, seed):
    tier, depth, descs = chunk
    global SYSTEM
    if SYSTEM is None or SYSTEM.tier != tier:
        SYSTEM = GraphSystem(tier)
    total = None
    for d in descs:
        r = explore_from(SYSTEM, d, build_graph, depth, seed, 'graph_rewrites' if depth == 2 else 'graph_rewrites_depth3')
        if total is None:
            total = r
        else:
            total.n += r.n
            total.calls += r.calls
            total.states += r.states
            total.disabled += r.disabled
            total.nontrivial_keys.extend(r.nontrivial_keys)
            total.classes.update(r.classes)
            total.fails.extend(r.fails[:5])
            total.extra.update(r.extra)
            total.harness_errors.extend(r.harness_errors[:2])
            total.digests.extend(r.digests[:1])
    return total


def replay_case(space, case, seed):
    return replay_history(GraphSystem('thorough'), case['init'], build_graph, case['ops'], seed, space.name)


def sig(case):
    ops = case['ops']
    return 'ops=' + '>'.join(str(o[0]) for o in ops)


def _space(name, descs, tier, depth):
    chunks = [(tier, depth, descs[i:i + 4]) for i in range(0, len(descs), 4)]
    return Space(name, chunks, run_chunk=_run_chunk, sig=sig,
                 bounds={'initial_graphs': len(descs), 'depth': depth, 'L': [1, 2, 3], 'inner_width<=': 2,
                         'edge_kinds': list(EDGE_KINDS), 'transitions': ['simplify', 'merge_edges(all mergeable ordered pairs, both directions)',
                                                                          'rename_node_id(every node -> max+1; smallest and end-terminal node also -> -3, 33)',
                                                                          'rename_edge_id(every edge -> max+1; smallest and largest also -> -3, 41)',
                                                                          'flip', 'add(self copy | 2 graphs with colliding ids | 1 graph with disjoint ids)']})


def spaces(tier, seed):
    if tier == 'quick':
        return [_space('graph_rewrites', initial_descs('quick'), 'quick', 2)]
    # thorough: the larger initial set to depth 2, and the quick initial set to depth 3
    return [_space('graph_rewrites', initial_descs('thorough'), 'thorough', 2),
            _space('graph_rewrites_depth3', initial_descs('quick'), 'quick', 3)]
