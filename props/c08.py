"""
C08 - real-time TDVP conserves norm, energy and quantum numbers.
"""

import itertools

import numpy as np

from mc import core, palette, dense
from mc.core import Space, OutOfDomain
from props import evo_common as ec

import pytenet as ptn

ID = 'C08'
LEVEL = 'model_checking'
RULE = ('Hamiltonian kind x L x every total charge x bond-profile kind {one, small, maximal, over} x dt x steps x Krylov iterations x '
        'integrator; repeated calls (histories of length <= 3) and scaled inputs; non-trivial = L >= 2 and a bond of dimension >= 2')
BUDGET = {'quick': 500, 'thorough': 3600}
DTS = [0.05j, 0.4j, -0.3j]
PROFILES = ['one', 'small', 'maximal', 'over']


def _cases(tier):
    Ls = [1, 2, 3, 4]
    iters_all = [1, 2, 3, 5, 25]
    for name in ec.ALL_H:
        d = ec.local_dim(name)
        for L in Ls:
            if d ** L > 256:
                continue
            H0 = ec.build_hamiltonian(name, L, np.random.default_rng(0))
            qd = [int(x) for x in H0.qd]
            seen = set()
            for tot in ec.totals_for(qd, L):
                for prof in PROFILES:
                    qD = palette.sector_profile(L, qd, 0, tot, prof)
                    if qD is None:
                        continue
                    key = core.canon(qD)
                    if key in seen:
                        continue
                    seen.add(key)
                    if max(map(len, qD)) > 12:
                        continue
                    for integ in ('single', 'two'):
                        if integ == 'two' and L < 2:
                            continue
                        if tier == 'quick':
                            # deviation-bounded: vary one of (dt, steps, iterations) at a time around the default (0.4j, 1, 3)
                            combos = [(0.4j, 1, 3)] + [(dt, 1, 3) for dt in DTS if dt != 0.4j] + [(0.4j, s, 3) for s in (2, 3)] + \
                                     [(0.4j, 1, it) for it in iters_all if it != 3]
                        else:
                            combos = list(itertools.product(DTS, (1, 2, 3), iters_all))
                        for dt, steps, it in combos:
                            yield [name, L, qD, integ, [dt.real, dt.imag], steps, it, 'complex']
                        # state tensors stored with a real dtype (the local Krylov start vector is then real)
                        for dt, steps, it in ([(0.4j, 1, 3), (0.4j, 2, 2), (-0.3j, 1, 25)] if tier == 'quick' else combos):
                            yield [name, L, qD, integ, [dt.real, dt.imag], steps, it, 'real']
                        # column-major tensors; tensors of size 2^-20 resp. 2^20 (state norm far from 1: the returned norm is judged relatively)
                        for sk in ('fortran', 'tiny', 'large'):
                            for dt, steps, it in ([(0.4j, 1, 3), (0.4j, 2, 25)] if tier == 'quick' else [(0.4j, 1, 3), (0.4j, 2, 25), (-0.3j, 3, 2)]):
                                yield [name, L, qD, integ, [dt.real, dt.imag], steps, it, sk]


def energy(v, Hd):
    return complex(np.vdot(v, Hd @ v))


def run_integrator(integ, H, psi, dt, steps, it):
    if integ == 'single':
        return ptn.integrate_local_singlesite(H, psi, dt, steps, numiter_lanczos=it)
    return ptn.integrate_local_twosite(H, psi, dt, steps, numiter_lanczos=it, tol_split=0)


def run_case(case, ctx):
    name, L, qD, integ, dtp, steps, it = case[:7]
    skind = case[7] if len(case) > 7 else 'complex'
    dt = complex(dtp[0], dtp[1])
    H = ec.build_hamiltonian(name, L, ctx.rng(5))
    qd = [int(x) for x in H.qd]
    psi = ec.make_state(ctx.rng(0), qd, qD, skind)
    ctx.cls('state_dtype:' + skind)
    v0 = dense.mps_to_vector(psi.A)
    n0 = float(np.linalg.norm(v0))
    tscale = float(np.prod([np.linalg.norm(a) for a in psi.A]))
    if n0 <= 1e-12 * tscale:
        raise OutOfDomain()
    Hd = dense.mpo_to_matrix(H.A)
    if np.max(np.abs(Hd - Hd.conj().T)) > 1e-12:
        ctx.fail('HARNESS', 'operator is not Hermitian')
        return
    hb = ec.mpo_bytes(H)
    e0 = energy(v0 / n0, Hd).real
    ctx.cls(f'H:{name}')
    ctx.cls(f'integrator:{integ}')
    ctx.nontrivial = L >= 2 and max(map(len, qD)) >= 2
    escale = 1 + float(np.max(np.abs(Hd)))
    dims0 = list(psi.bond_dims)
    # homogeneity: the same run on a copy normalised by the oracle, and on a complex-scaled copy
    psi_n = ec.copy_state(psi)
    psi_n.A[0] = psi_n.A[0] / n0
    scale = 2.5 * np.exp(0.7j)
    psi_s = ec.copy_state(psi)
    psi_s.A[-1] = psi_s.A[-1] * scale
    totals0 = (list(map(int, psi.qD[0])), list(map(int, psi.qD[-1])))
    for call in range(3 if steps == 1 and it == 3 else 1):      # repeated calls on the same state
        if call == 2:
            # between the second and the third call the SAME Hamiltonian object is modified in place (rescaled first tensor):
            # the third call must conserve the energy of the modified operator
            # (conjugation of site 0 by a diagonal phase matrix: Hermitian, charge preserving, and not proportional to the old operator)
            ph = np.exp(1j * np.linspace(0.3, 1.7, H.A[0].shape[0]))
            H.A[0] *= (ph[:, None] * ph.conj()[None, :])[:, :, None, None]
            Hd = dense.mpo_to_matrix(H.A)
            hb = ec.mpo_bytes(H)
            e0 = energy(dense.mps_to_vector(psi.A), Hd).real
            escale = 1 + float(np.max(np.abs(Hd)))
            ctx.cls('hamiltonian_modified_between_calls')
        r = run_integrator(integ, H, psi, dt, steps, it)
        ctx.calls += 1
        v = dense.mps_to_vector(psi.A)
        ctx.obs(v)
        expect_ret = n0 if call == 0 else 1.0
        ctx.check(abs(float(np.real(r)) - expect_ret) <= 1e-9 * expect_ret + (1e-12 * tscale if call == 0 else 0), 'returns_norm_of_input_state',
                  f'call {call}: {r} vs {expect_ret}')
        ctx.check(abs(np.linalg.norm(v) - 1) <= 1e-9, 'norm_stays_one', f'call {call}: {np.linalg.norm(v)}')
        ctx.check(abs(energy(v, Hd).real - e0) <= 1e-9 * escale, 'energy_conserved', f'call {call}: {energy(v, Hd).real} vs {e0}')
        ctx.check(ec.mpo_bytes(H) == hb, 'hamiltonian_not_modified')
        if integ == 'single':
            ctx.check(all(a <= b for a, b in zip(psi.bond_dims, dims0)), 'single_site_never_increases_bond_dimension', f'{dims0} -> {psi.bond_dims}')
        ctx.check(not dense.mps_masks_ok(psi.A, psi.qd, psi.qD), 'state_block_sparse_after')
        ctx.check((list(map(int, psi.qD[0])), list(map(int, psi.qD[-1]))) == totals0, 'total_charge_unchanged')
        if call == 0:
            # the integrator normalises its input: a copy normalised by the oracle and a complex-scaled copy behave the same way.
            # (The evolved *vectors* are deliberately not compared: at rank-deficient bonds the QR/SVD completion vectors are
            #  rounding-dependent and the projected evolution legitimately depends on them - see DESIGN.md 2.6.)
            for label, cp, expect in (('normalised', psi_n, 1.0), ('scaled', psi_s, abs(scale) * n0)):
                rr = run_integrator(integ, H, cp, dt, steps, it)
                ctx.calls += 1
                w = dense.mps_to_vector(cp.A)
                ctx.check(abs(float(np.real(rr)) - expect) <= 1e-9 * expect + 1e-12 * tscale * (abs(scale) if label == 'scaled' else 1 / n0),
                          f'{label}_copy_returns_its_norm', f'{rr} vs {expect}')
                ctx.check(abs(np.linalg.norm(w) - 1) <= 1e-9, f'{label}_copy_norm_one_after', np.linalg.norm(w))
                ctx.check(abs(energy(w, Hd).real - e0) <= 1e-9 * escale, f'{label}_copy_energy_of_normalised_input', f'{energy(w, Hd).real} vs {e0}')
        if ctx.fails:
            return


def _history_probe(w, ctx):
    import copy
    if w.name == 'linf3':
        return
    psi, H = w.psi, w.K
    if not np.array_equal(psi.qd, H.qd):
        return     # after zero_qnumbers() state and Hamiltonian no longer share physical quantum numbers (documented precondition)
    v0 = dense.mps_to_vector(psi.A)
    n0 = float(np.linalg.norm(v0))
    if n0 < 1e-12 or max(psi.bond_dims) > 32:
        return
    Hd = dense.mpo_to_matrix(H.A)
    hb = ec.mpo_bytes(H)
    e0 = energy(v0 / n0, Hd).real
    escale = 1 + float(np.max(np.abs(Hd)))
    for integ in ('single', 'two'):
        if integ == 'two' and psi.nsites < 2:
            continue
        p2 = copy.deepcopy(psi)
        dims0 = list(p2.bond_dims)
        r = run_integrator(integ, H, p2, 0.2j, 1, 3)
        ctx.calls += 1
        v = dense.mps_to_vector(p2.A)
        ctx.check(abs(float(np.real(r)) - n0) <= 1e-9 * (1 + n0), f'history:{integ}:returns_norm_of_input_state', f'{r} vs {n0}')
        ctx.check(abs(np.linalg.norm(v) - 1) <= 1e-9, f'history:{integ}:norm_stays_one', np.linalg.norm(v))
        ctx.check(abs(energy(v, Hd).real - e0) <= 1e-9 * escale, f'history:{integ}:energy_conserved', f'{energy(v, Hd).real} vs {e0}')
        ctx.check(ec.mpo_bytes(H) == hb, f'history:{integ}:hamiltonian_not_modified')
        if integ == 'single':
            ctx.check(all(a <= b for a, b in zip(p2.bond_dims, dims0)), 'history:single_site_never_increases_bond_dimension', f'{dims0} -> {p2.bond_dims}')


def replay_case(space, case, seed):
    if space.name == 'history_states':
        from props import hist_probe
        return hist_probe.replay(space, case, seed)
    return space.run_one(case, seed).fails


def sig(case):
    return f'{case[0]}:L={case[1]}:{case[3]}'


def spaces(tier, seed):
    from props import hist_probe
    hist = hist_probe.probe_space('history_states', ['xxz3', 'ising3', 'fh2', 'bh3', 'mol4'], 2 if tier == 'quick' else 3, _history_probe)
    return [hist, Space('tdvp_conservation', core.chunked(_cases(tier), 20), run_case=run_case, sig=sig,
                  bounds={'hamiltonians': ec.ALL_H, 'L': [1, 2, 3, 4], 'dense_dim<=': 256, 'profiles': PROFILES, 'dt': [str(x) for x in DTS],
                          'steps': [1, 2, 3], 'krylov_iterations': [1, 2, 3, 5, 25],
                          'combination': 'quick: one axis varied at a time around (0.4j,1,3); thorough: full product',
                          'repeated_calls': 3, 'state_kinds': ['complex', 'real', 'fortran (column-major)', 'tiny (2^-20 per tensor)', 'large (2^20 per tensor)']})]
