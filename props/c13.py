"""
C13 - compression and vector-to-MPS conversion obey their truncation error bounds.
"""

import itertools

import numpy as np

from mc import core, palette, dense
from mc.core import Space, OutOfDomain
from mc.truncmodel import kept_range

from pytenet.mps import MPS

ID = 'C13'
LEVEL = 'model_checking'
RULE = ('states: every sector-consistent layout (L, qd, bond profile, charges) with generic entries, plus designed entanglement spectra '
        '(product, flat GHZ-type, dyadic staircase; gauge-scrambled, zero-padded bonds) x tolerance set intersected with [0,1/L) x '
        'sweep mode; vectors for from_vector: d x n x kinds x tolerances; non-trivial = state with a bond of Schmidt rank >= 2')
BUDGET = {'quick': 400, 'thorough': 3600}
TOLS = [0.0, 1e-20, 2.0 ** -4, 2.0 ** -3, 0.1, 0.2, 0.3]


def schmidt(v, d, L, k):
    return np.linalg.svd(v.reshape(d ** k, d ** (L - k)), compute_uv=False)


def judge_compress(ctx, psi, v0, d, L, tol, mode):
    old_dims = list(psi.bond_dims)
    nrm0 = float(np.linalg.norm(v0))
    # comparisons are relative to the size of the state (no absolute floor): rounding level ~ product of the tensor norms
    tscale = float(np.prod([np.linalg.norm(a) for a in psi.A]))
    eps1 = 1e-10 * nrm0 + 1e-12 * tscale
    eps2 = 1e-12 * nrm0 ** 2 + 1e-14 * tscale ** 2        # for squared quantities of size tol * nrm0^2
    eps2b = eps1 ** 2                                     # slack of the error bound: the bound itself may be 0
    res = psi.compress(tol, mode=mode)
    ctx.calls += 1
    if not ctx.check(isinstance(res, tuple) and len(res) == 2, 'returns_norm_and_scale', type(res)):
        return
    nrm, scale = float(np.real(res[0])), float(np.real(res[1]))
    A = psi.A
    new_dims = [A[0].shape[1]] + [a.shape[2] for a in A]
    v1 = dense.mps_to_vector(A)
    ctx.obs(v1, np.float64(nrm), np.float64(scale))
    ctx.check(abs(nrm - nrm0) <= eps1, 'returns_norm_of_original', f'{nrm} vs {nrm0}')
    lo = np.sqrt(max(0.0, 1 - L * tol))
    ctx.check(lo - 1e-10 <= scale <= 1 + 1e-10, 'scale_within_bounds', f'scale={scale} lower={lo}')
    ctx.check(abs(np.linalg.norm(v1) - 1) <= 1e-10, 'normalized_after', np.linalg.norm(v1))
    for i, a in enumerate(A):
        e = dense.is_isometry_left(a) if mode == 'left' else dense.is_isometry_right(a, 1)
        ctx.check(e <= 1e-10, 'canonical_after', f'site {i} deviation {e:.2e}')
    ctx.check(all(n <= o for n, o in zip(new_dims, old_dims)), 'bond_dimensions_not_larger', f'{old_dims} -> {new_dims}')
    # error identity, squared form
    err2 = float(np.sum(np.abs(nrm * scale * v1 - v0) ** 2))
    ref2 = nrm0 ** 2 * (1 - scale ** 2)
    ctx.check(abs(err2 - ref2) <= eps2, 'error_identity', f'err2={err2:.6e} nrm^2(1-scale^2)={ref2:.6e}')
    ctx.check(err2 <= nrm0 ** 2 * L * tol + eps2b, 'error_bound', f'{err2} > {nrm0**2 * L * tol}')
    if tol == 0:
        e0 = float(np.max(np.abs(nrm * scale * v1 - v0)))
        ctx.check(e0 <= eps1, 'zero_tolerance_exact', f'err={e0:.3e} norm={nrm0:.3e}')
    # first truncated bond
    if L >= 2:
        k = 1 if mode == 'left' else L - 1
        sig = schmidt(v0, d, L, k)
        k_lo, k_hi, _ = kept_range(sig, tol, 1e-11)
        ctx.check(k_lo <= new_dims[k] <= max(k_hi, 1), 'first_truncated_bond_follows_rule',
                  f'bond {k}: kept {new_dims[k]} admissible [{k_lo},{k_hi}] sigma={np.round(sig, 6).tolist()} tol={tol}')
        rank = int(np.sum(sig > 1e-9 * max(sig[0], 1e-300)))
        ctx.cls('truncating' if new_dims[k] < rank else 'not_truncating')
        return rank
    return 1


def _tols(L):
    return [t for t in TOLS if t * L < 1]


def _sector_cases(Ls, qds, Ds):
    for L in Ls:
        for qd in qds:
            for (_, qD) in palette.mps_structs(L, qd, Ds):
                for kind in ('complex', 'real', 'fortran', 'tiny', 'large'):
                    yield ['sector', qd, qD, kind]


def run_sector_case(case, ctx):
    _, qd, qD, kind = case
    L, d = len(qD) - 1, len(qd)
    A = palette.mps_tensors(ctx.rng(0), qd, qD, kind)
    v0 = dense.mps_to_vector(A)
    if not np.any(v0):
        raise OutOfDomain()
    ctx.cls(f'sector:L={L}')
    rank = 1
    for tol in _tols(L):
        for mode in ('left', 'right'):
            psi = MPS(qd, qD, fill='postpone')
            psi.A = [a.copy() for a in A]
            nf = len(ctx.fails)
            r = judge_compress(ctx, psi, v0, d, L, tol, mode)
            rank = max(rank, r or 1)
            if len(ctx.fails) > nf:
                ctx.fails[nf] = (ctx.fails[nf][0], f'tol={tol} mode={mode} ' + str(ctx.fails[nf][1]))
                return
    ctx.nontrivial = rank >= 2


def designed_state(rng, kind, L, d, Dpad):
    """MPS tensors (zero charges) of a state with designed Schmidt spectrum, gauge-scrambled, bonds zero-padded to Dpad."""
    if kind == 'product':
        K, c = 1, np.array([1.0])
    elif kind == 'flat':
        K = d
        c = np.ones(K) / np.sqrt(K)
    elif kind == 'staircase':
        K = d
        w = [0.5 ** (j + 1) for j in range(K)]
        w[-1] = w[-2] if K >= 2 else 1.0     # 1/2, 1/4, ..., 2^-(K-1), 2^-(K-1)  (sums to one)
        c = np.sqrt(np.array(w))
    elif kind == 'wide':
        # Schmidt coefficients 1, 2^-15, 2^-30, ...: weights down to 1e-18 and below, far under machine epsilon relative to the total
        K = d
        c = 2.0 ** (-15.0 * np.arange(K))
        c = c / np.linalg.norm(c)
    else:
        raise ValueError(kind)
    D = max(K, Dpad)
    dims = [1] + [D] * (L - 1) + [1]
    A = []
    for i in range(L):
        a = np.zeros((d, dims[i], dims[i + 1]), dtype=complex)
        if kind == 'product':
            x = palette.generic(rng, d, 'complex')
            a[:, 0, 0] = x
        else:
            for k in range(K):
                l = 0 if i == 0 else k
                r = 0 if i == L - 1 else k
                a[k, l, r] = c[k] if i == 0 else 1.0
        A.append(a)
    if L == 1 and kind != 'product':
        A[0][:, 0, 0] = c
    # gauge scrambling: unitary on every interior bond
    for i in range(L - 1):
        q, _ = np.linalg.qr(palette.generic(rng, (D, D), 'complex'))
        A[i] = np.einsum('slr,rk->slk', A[i], q)
        A[i + 1] = np.einsum('kl,slr->skr', q.conj().T, A[i + 1])
    return A


def _designed_cases(tier):
    Ls = [2, 3, 4] if tier == 'quick' else [2, 3, 4, 5]
    for kind in ('product', 'flat', 'staircase', 'wide'):
        for L in Ls:
            for d in (2, 3, 4):
                if d ** L > 1024:
                    continue
                for pad in (0, 1):
                    yield ['designed', kind, L, d, pad]


def run_designed_case(case, ctx):
    _, kind, L, d, pad = case
    K = 1 if kind == 'product' else d
    A = designed_state(ctx.rng(0), kind, L, d, K + pad)
    v0 = dense.mps_to_vector(A)
    qd = [0] * d
    qD = [[0] * a.shape[1] for a in A] + [[0]]
    ctx.cls('designed:' + kind)
    ctx.nontrivial = kind != 'product'
    tols = sorted(set(_tols(L) + [t for t in (0.25, 0.125, 0.5 ** (d - 1), 1.0 / d, 0.2499, 0.2501) if t * L < 1]))
    for tol in tols:
        for mode in ('left', 'right'):
            psi = MPS(qd, qD, fill='postpone')
            psi.A = [a.copy() for a in A]
            nf = len(ctx.fails)
            judge_compress(ctx, psi, v0, d, L, tol, mode)
            if len(ctx.fails) > nf:
                ctx.fails[nf] = (ctx.fails[nf][0], f'tol={tol} mode={mode} ' + str(ctx.fails[nf][1]))
                return


def _vector_cases(tier):
    for d in (2, 3):
        for n in (1, 2, 3, 4):
            for vk in ('complex', 'real', 'product', 'flat', 'staircase', 'wide', 'tiny', 'large'):
                yield ['vector', d, n, vk]


def run_vector_case(case, ctx):
    _, d, n, vk = case
    rng = ctx.rng(0)
    if vk in ('complex', 'real'):
        v = palette.generic(rng, d ** n, vk)
    elif vk in ('tiny', 'large'):
        v = palette.generic(rng, d ** n, 'complex') * 2.0 ** (-60 if vk == 'tiny' else 60)
    else:
        v = dense.mps_to_vector(designed_state(rng, vk, n, d, d))
    nv = float(np.linalg.norm(v))
    ctx.cls('from_vector:' + vk)
    ctx.nontrivial = n >= 2
    for tol in TOLS + [1e-30, 0.25, 0.5, 0.9]:
        v_in = v.copy()
        m = MPS.from_vector(d, n, v_in, tol)
        ctx.calls += 1
        ctx.check(np.array_equal(v_in, v), 'input_vector_unchanged')
        if not ctx.check(m.nsites == n, 'from_vector_length', m.nsites):
            return
        w = dense.mps_to_vector(m.A)
        ctx.obs(w)
        err2 = float(np.sum(np.abs(w - v) ** 2))
        ctx.check(err2 <= n * tol * nv ** 2 + (1e-10 * nv) ** 2, 'from_vector_relative_error_bound', f'tol={tol} err2={err2} bound={n * tol * nv**2}')
        if tol == 0:
            ctx.close(w / nv, v / nv, 'from_vector_zero_tolerance_exact')
        if ctx.fails:
            return


def _history_probe(w, ctx):
    import copy
    psi = w.psi
    v0 = dense.mps_to_vector(psi.A)
    if np.linalg.norm(v0) < 1e-12:
        return
    L, d = psi.nsites, len(psi.qd)
    for tol in (0.0, 0.1):
        if tol * L >= 1:
            continue
        for mode in ('left', 'right'):
            judge_compress(ctx, copy.deepcopy(psi), v0, d, L, tol, mode)


def replay_case(space, case, seed):
    if space.name == 'history_states':
        from props import hist_probe
        return hist_probe.replay(space, case, seed)
    return space.run_one(case, seed).fails


def sig(case):
    return case[0] + ':' + str(case[1] if case[0] != 'sector' else f'L={len(case[2])-1}')


def spaces(tier, seed):
    if tier == 'quick':
        sect = [Space('sector_states', core.chunked(_sector_cases([1, 2, 3], [[0, 1], [1, -1], [0, 0], [0, 1, 2]], [1, 2, 3]), 60),
                      run_case=run_sector_case, sig=sig,
                      bounds={'L': [1, 2, 3], 'qd': [[0, 1], [1, -1], [0, 0], [0, 1, 2]], 'D': [1, 2, 3], 'tols': TOLS, 'modes': ['left', 'right']}),
                Space('sector_states_L4', core.chunked(_sector_cases([4], [[0, 1], [0, 0]], [1, 2]), 60),
                      run_case=run_sector_case, sig=sig, bounds={'L': [4], 'qd': [[0, 1], [0, 0]], 'D': [1, 2], 'tols': TOLS})]
    else:
        sect = [Space('sector_states', core.chunked(_sector_cases([1, 2, 3], [[0, 1], [1, -1], [0, 0], [0, 1, 2]], [1, 2, 3, 4]), 60),
                      run_case=run_sector_case, sig=sig,
                      bounds={'L': [1, 2, 3], 'D': [1, 2, 3, 4], 'tols': TOLS}),
                Space('sector_states_L4', core.chunked(_sector_cases([4], [[0, 1], [1, -1], [0, 0]], [1, 2, 3]), 60),
                      run_case=run_sector_case, sig=sig, bounds={'L': [4], 'D': [1, 2, 3], 'tols': TOLS})]
    from props import hist_probe
    hist = hist_probe.probe_space('history_states', ['xxz3', 'ising3', 'fh2', 'bh3', 'mol4'], 2 if tier == 'quick' else 3, _history_probe)
    return sect + [hist] + [
        Space('designed_spectra', core.chunked(_designed_cases(tier), 2), run_case=run_designed_case, sig=sig,
              bounds={'kinds': ['product', 'flat', 'staircase', 'wide'], 'L': [2, 3, 4], 'd': [2, 3, 4], 'zero_padding': [0, 1],
                      'tols': 'TOLS + {1/4, 1/8, 2^-(d-1), 1/d, 0.2499, 0.2501} within [0,1/L)'}),
        Space('from_vector', core.chunked(_vector_cases(tier), 2), run_case=run_vector_case, sig=sig,
              bounds={'d': [2, 3], 'n': [1, 2, 3, 4], 'kinds': ['complex', 'real', 'product', 'flat', 'staircase', 'wide', 'tiny', 'large'], 'tols': TOLS + [1e-30, 0.25, 0.5, 0.9]}),
    ]
