"""
C15 - Krylov approximations are bounded, and exact once the Krylov space is exhausted.
"""

import warnings

import numpy as np
from scipy.linalg import expm

from mc import core
from mc.core import Space
from props import krylov_common as kc

from pytenet.krylov import eigh_krylov, expm_krylov

ID = 'C15'
LEVEL = 'model_checking'
RULE = ('every n<=N, 1<=m<=n+2 and m in {2n+1, 3n+2}, matrix kind, start kind, invariant-block size, map presentation; for the exponential every dt of '
        'the palette and both values of the hermitian flag, for the eigensolver every numeig; non-trivial = n>=2')
BUDGET = {'quick': 300, 'thorough': 2400}
DTS = [0.3j, -0.7j, 0.2, 0.1 + 0.2j]


def _cases(N, NU):
    for n in range(1, N + 1):
        for kind in kc.MATRIX_KINDS_H + kc.MATRIX_KINDS_G:
            ks = range(1, n) if kind.startswith('block_invariant') else (range(1, n + 1) if kind == 'nilpotent_chain' else [0])
            for k in ks:
                for sk in kc.START_KINDS:
                    for how in kc.PRESENTATIONS:
                        if how == 'view' and kind not in ('reversal', 'identity'):
                            continue
                        for m in list(range(1, n + 3)) + [2 * n + 1, 3 * n + 2]:
                            yield [n, m, kind, k, sk, how]
                            if how == 'fresh' and n <= NU and m <= n + 1:
                                for units in list(kc.UNITS)[1:]:
                                    yield [n, m, kind, k, sk, how, units]


def run_case(case, ctx):
    n, m, kind, k, sk, how = case[:6]
    units = case[6] if len(case) > 6 else 'unit'
    A, v, kd = kc.build(ctx.rng(0), n, kind, sk, k)
    # units: the map times sa (and the time argument divided by it), the start vector times sv; judged after undoing the scaling
    sa, sv = kc.UNITS[units]
    v = v * sv
    ctx.cls('units:' + units)
    n0 = len(ctx.fails)
    known = kc.below_threshold(A * sa, v, m, kd)
    if known:
        ctx.cls('genuine_offdiagonal_below_absolute_threshold')
    try:
        _judge(ctx, n, m, kind, how, A, v, kd, sa)
    finally:
        if known:
            kc.add_class(ctx, n0, kc.KNOWN_CLASS)


def _judge(ctx, n, m, kind, how, A, v, kd, sa):
    herm = kind in kc.MATRIX_KINDS_H
    ctx.nontrivial = n >= 2
    ctx.cls('map:' + how)
    ctx.cls('exhausted' if m >= kd else 'below_exhaustion')
    nv = np.linalg.norm(v)
    with warnings.catch_warnings():
        warnings.simplefilter('ignore')
        if herm:
            lam, U = np.linalg.eigh(A)
            rho = float(np.vdot(v, A @ v).real / nv ** 2)
            # eigenvalues reachable from v: structural overlaps (zero or O(0.1) by construction)
            ov = np.abs(U.conj().T @ v) / nv
            reach = lam[ov > 1e-8]
            for numeig in range(1, min(m, kd) + 1):
                f = kc.present(A * sa, kind, how)
                w, ur = eigh_krylov(f, v.copy(), m, numeig)
                w = np.asarray(w) / sa
                ctx.calls += 1
                ctx.obs(w)
                if not ctx.check(len(w) == numeig and ur.shape == (n, numeig), 'eig_output_sizes', f'{np.shape(w)} {np.shape(ur)}'):
                    return
                ctx.check(lam[0] - 1e-9 <= w[0] <= rho + 1e-9, 'lowest_ritz_value_bounded', f'{lam[0]} <= {w[0]} <= {rho}')
                if m < kd:
                    # stated only below exhaustion: beyond it the iteration may continue on a rounding-noise vector when the
                    # breakdown test (beta < 100*n*eps) is missed, which the property does not exclude
                    ctx.close(ur.conj().T @ ur, np.identity(numeig), 'ritz_vectors_orthonormal', tol=1e-9)
                    rq = np.array([np.vdot(ur[:, i], A @ ur[:, i]).real for i in range(numeig)])
                    ctx.close(rq, np.asarray(w), 'ritz_values_are_rayleigh_quotients', tol=1e-9)
                if m >= kd:
                    ctx.check(abs(w[0] - reach.min()) <= 1e-9 * (1 + abs(reach.min())), 'lowest_ritz_value_exact_at_exhaustion',
                              f'{w[0]} vs {reach.min()}')
        for dt in DTS:
            ref = expm(dt * A) @ v
            for flag in ((True, False) if herm else (False,)):
                f = kc.present(A * sa, kind, how)
                vin = v.copy()
                r = expm_krylov(f, vin, dt / sa, m, hermitian=flag)
                ctx.calls += 1
                ctx.obs(r)
                ctx.check(np.array_equal(vin, v), 'input_vector_unchanged')
                if not ctx.check(np.shape(r) == (n,), 'expm_output_shape', np.shape(r)):
                    return
                if flag and dt.real == 0:
                    ctx.check(abs(np.linalg.norm(r) - nv) <= 2e-10 * nv, 'hermitian_imaginary_time_preserves_norm',
                              f'{np.linalg.norm(r)} vs {nv}')
                if m >= kd:
                    ctx.close(r / nv, ref / nv, f'expm_exact_at_exhaustion[hermitian={flag}]', tol=1e-9)
            if ctx.fails:
                return


def sig(case):
    return f'{case[2]}:{case[5]}' + (':' + case[6] if len(case) > 6 else '')


def spaces(tier, seed):
    N = 10 if tier == "quick" else 12
    NU = 6 if tier == "quick" else 8
    return [Space('krylov_approximations', core.chunked(_cases(N, NU), 100), run_case=run_case, sig=sig,
                  bounds={'n<=': N, 'units': f'{list(kc.UNITS)} for n <= {NU}, m <= n+1 (fresh presentation)', 'm': '1..n+2, 2n+1, 3n+2', 'dt': [str(x) for x in DTS], 'matrix_kinds': kc.MATRIX_KINDS_H + kc.MATRIX_KINDS_G,
                          'presentations': kc.PRESENTATIONS})]
