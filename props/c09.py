"""
C09 - TDVP is exact on a complete manifold and exactly time-reversible.

Three spaces:
  exact         every sector-complete ('maximal') bond layout within dense reach that satisfies the combinatorial exactness
                predicate (mc.palette.exactness_predicate), x Hamiltonian x dt x steps x integrator, against scipy expm
  reversibility +dt then -dt on full-rank states of every profile kind
  schedule      the sub-step trace (kind, dt fraction) recorded by wrapping the two module-level step functions is compared with a
                ten-line reference schedule model; the model itself is checked to be palindromic with fractions summing to +1 / -1
"""

import itertools

import numpy as np
from scipy.linalg import expm

from mc import core, palette, dense
from mc.core import Space, OutOfDomain
from props import evo_common as ec

import pytenet as ptn
import pytenet.evolution as evo

ID = 'C09'
LEVEL = 'model_checking'
RULE = ('exact: Hamiltonian kind x L x every total charge whose sector-complete layout passes the exactness predicate x dt x steps x integrator; '
        'reversibility: profile kinds x dt x steps; schedule: L<=5 x steps<=2 x integrator; non-trivial = sector dimension >= 2')
BUDGET = {'quick': 500, 'thorough': 3600}
DTS = [0.3j, 0.15, 0.2 + 0.1j, -0.1 + 0.2j]


# ---- reference schedule model ------------------------------------------------------------------

def schedule_model(L, steps, twosite):
    """Sequence of (kind, site index, fraction of dt) of one call; kind in {'S' one-site, 'T' two-site, 'B' bond}."""
    seq = []
    for _ in range(steps):
        if not twosite:
            for i in range(L - 1):
                seq += [('S', i, 0.5), ('B', i + 1, -0.5)]
            seq += [('S', L - 1, 1.0)]
            for i in reversed(range(1, L)):
                seq += [('B', i, -0.5), ('S', i - 1, 0.5)]
        else:
            for i in range(L - 2):
                seq += [('T', i, 0.5), ('S', i + 1, -0.5)]
            seq += [('T', L - 2, 1.0)]
            for i in reversed(range(L - 2)):
                seq += [('S', i + 1, -0.5), ('T', i, 0.5)]
    return seq


def model_self_check(L, twosite):
    """Facts the exactness/reversibility statement rests on: palindromic; per step every site is evolved forward by a total of one dt."""
    seq = schedule_model(L, 1, twosite)
    ok = [(k, i, f) for (k, i, f) in seq] == [(k, i, f) for (k, i, f) in reversed(seq)]
    cover = np.zeros(L)
    for (k, i, f) in seq:
        if k == 'S':
            cover[i] += f
        elif k == 'T':
            cover[i] += f
            cover[i + 1] += f
        elif k == 'B':
            pass
    if not twosite:
        bonds = np.zeros(L + 1)
        for (k, i, f) in seq:
            if k == 'B':
                bonds[i] += f
        ok = ok and np.allclose(cover, 1.0) and np.allclose(bonds[1:L], -1.0)
    else:
        # two-site: site i is covered by T_{i-1} and T_i forward and by the single-site backward steps
        ok = ok and np.allclose(cover, 1.0)
    return bool(ok)


class Recorder:
    def __init__(self, d, dt):
        self.trace = []
        self.d = d
        self.dt = dt

    def __enter__(self):
        self.h0, self.b0 = evo._local_hamiltonian_step, evo._local_bond_step

        def hstep(L, R, W, A, dt, numiter):
            kind = 'S' if W.shape[0] == self.d else 'T'
            self.trace.append((kind, complex(dt) / self.dt))
            return self.h0(L, R, W, A, dt, numiter)

        def bstep(L, R, C, dt, numiter):
            self.trace.append(('B', complex(dt) / self.dt))
            return self.b0(L, R, C, dt, numiter)
        evo._local_hamiltonian_step, evo._local_bond_step = hstep, bstep
        return self

    def __exit__(self, *a):
        evo._local_hamiltonian_step, evo._local_bond_step = self.h0, self.b0


# ---- exactness ----------------------------------------------------------------------------------

def _exact_cases(tier):
    maxdim = 64 if tier == 'quick' else 256
    for name in ec.ALL_H:
        d = ec.local_dim(name)
        for L in range(1, 7):
            if d ** L > (256 if tier == 'quick' else 1024):
                continue
            H0 = ec.build_hamiltonian(name, L, np.random.default_rng(0))
            qd = [int(x) for x in H0.qd]
            for tot in ec.totals_for(qd, L):
                qD = palette.sector_profile(L, qd, 0, tot, 'maximal')
                if qD is None:
                    continue
                sdim = len(ec.sector_indices(qd, L, tot))
                if sdim > maxdim:
                    continue
                for integ in ('single', 'two'):
                    if integ == 'two' and L < 2:
                        continue
                    if tier == 'quick':
                        combos = [(DTS[0], 1), (DTS[1], 1), (DTS[2], 2), (DTS[3], 1), (DTS[0], 3)]
                    else:
                        combos = list(itertools.product(DTS, (1, 2, 3)))
                    for dt, steps in combos:
                        yield ['exact', name, L, qD, integ, [dt.real, dt.imag], steps, 'complex']
                    for dt, steps in ([(DTS[0], 1), (DTS[1], 1), (DTS[2], 2)] if tier == 'quick' else combos):
                        yield ['exact', name, L, qD, integ, [dt.real, dt.imag], steps, 'real']
                    # the Hamiltonian in small units (times 2^-30) with the time step in the corresponding large units: |dt| ||H|| unchanged
                    for dt, steps in ([(DTS[0], 1)] if tier == 'quick' else [(DTS[0], 1), (DTS[2], 2)]):
                        yield ['exact', name, L, qD, integ, [dt.real, dt.imag], steps, 'complex', 'maximal', 'small_units']
                    # over-complete bonds (every multiplicity one above the sector-complete one): the manifold is still the whole sector;
                    # the sweep then meets non-square bond matrices
                    qDo = palette.sector_profile(L, qd, 0, tot, 'over')
                    for dt, steps in ([(DTS[0], 1), (DTS[2], 2)] if tier == 'quick' else combos):
                        yield ['exact', name, L, qDo, integ, [dt.real, dt.imag], steps, 'complex', 'over']


def run_exact_case(case, ctx):
    _, name, L, qD, integ, dtp, steps = case[:7]
    skind = case[7] if len(case) > 7 else 'complex'
    # a real time step is passed as a Python float (what a user types), a non-real one as complex
    dt = complex(dtp[0], dtp[1]) if dtp[1] != 0 else float(dtp[0])
    H = ec.build_hamiltonian(name, L, ctx.rng(5))
    qd = [int(x) for x in H.qd]
    # The statement claims exactness whenever the bond dimensions admit every vector of the sector, which every sector-complete
    # ('maximal') layout does.  Exactness is a theorem only when some bond split is left/right complete (DESIGN.md 4/C09); the
    # remaining layouts are judged all the same, and their failures carry the class [no_complete_split] (KNOWN_FINDINGS.txt).
    prof = case[8] if len(case) > 8 else 'maximal'
    # (for an over-complete layout the predicate is that of the sector-complete layout of the same sector: same manifold)
    qDm = qD if prof == 'maximal' else palette.sector_profile(L, qd, 0, int(qD[-1][0]), 'maximal')
    pred = palette.exactness_predicate(qd, qDm, twosite=(integ == 'two'))
    ctx.cls('profile:' + prof)
    ctx.cls('layout_with_complete_split' if pred else 'layout_without_complete_split')
    if len(case) > 9 and case[9] == 'small_units':
        unit = 2.0 ** -30
        H.A[0] = H.A[0] * unit
        dt = dt / unit
        ctx.cls('hamiltonian_in_small_units')
    psi = ec.make_state(ctx.rng(0), qd, qD, skind)
    ctx.cls('state_dtype:' + skind)
    v0 = dense.mps_to_vector(psi.A)
    n0 = np.linalg.norm(v0)
    if n0 < 1e-12:
        raise OutOfDomain()
    Hd = dense.mpo_to_matrix(H.A)
    d = len(qd)
    numiter = max(a.size for a in psi.A) * d + 2     # covers every one- and two-site local problem
    if numiter > 400:
        # the Krylov routines document "numiter should be much smaller than the dimension"; asking for thousands of iterations on
        # a local problem of a few hundred dimensions is outside that use (first thorough run: sporadic LAPACK non-convergence)
        ctx.cls('local_dimension_above_cap')
        raise OutOfDomain()
    # conditioning: for (partly) real dt rounding errors are amplified by exp(|Re dt| n spread(H)); the property bounds |dt| ||H||
    lam = np.linalg.eigvalsh((Hd + Hd.conj().T) / 2)
    amp = float(np.exp(abs(dt.real) * steps * (lam[-1] - lam[0])))
    if amp > 1e3:
        ctx.cls('ill_conditioned_dt_times_H')
        raise OutOfDomain()
    if integ == 'single':
        ptn.integrate_local_singlesite(H, psi, dt, steps, numiter_lanczos=numiter)
    else:
        ptn.integrate_local_twosite(H, psi, dt, steps, numiter_lanczos=numiter, tol_split=0)
    ctx.calls += 1
    v = dense.mps_to_vector(psi.A)
    ref = expm(-dt * steps * Hd) @ (v0 / n0)
    ctx.obs(v)
    sdim = len(ec.sector_indices(qd, L, int(qD[-1][0])))
    ctx.nontrivial = sdim >= 2
    ctx.cls(f'exact:{integ}:{"imag" if dt.real == 0 else ("real" if dt.imag == 0 else "complex")}_dt')
    ctx.close(v, ref, 'evolution_equals_matrix_exponential_on_complete_manifold' + ('' if pred else '[no_complete_split]'), tol=1e-9 * amp)


# ---- reversibility ------------------------------------------------------------------------------

def _rev_cases(tier):
    for name in ec.ALL_H:
        d = ec.local_dim(name)
        for L in range(1, 5):
            if d ** L > 256:
                continue
            H0 = ec.build_hamiltonian(name, L, np.random.default_rng(0))
            qd = [int(x) for x in H0.qd]
            seen = set()
            for tot in ec.totals_for(qd, L):
                for prof in ('one', 'small', 'maximal', 'over'):
                    qD = palette.sector_profile(L, qd, 0, tot, prof)
                    if qD is None or core.canon(qD) in seen or max(map(len, qD)) > 10:
                        continue
                    seen.add(core.canon(qD))
                    combos = [(DTS[0], 1), (DTS[1], 2), (DTS[2], 1), (DTS[3], 3)] if tier == 'quick' else list(itertools.product(DTS, (1, 2, 3)))
                    for dt, steps in combos:
                        yield ['reverse', name, L, qD, [dt.real, dt.imag], steps, 'complex']
                    for dt, steps in ([(DTS[0], 1), (DTS[1], 1), (DTS[3], 2)] if tier == 'quick' else combos):
                        yield ['reverse', name, L, qD, [dt.real, dt.imag], steps, 'real']


def full_rank(v, d, L):
    """Schmidt rank at every cut equals the bond dimension the layout provides? (checked by the caller)"""
    return [int(np.sum(np.linalg.svd(v.reshape(d ** k, d ** (L - k)), compute_uv=False) > 1e-9)) for k in range(1, L)]


def run_rev_case(case, ctx):
    _, name, L, qD, dtp, steps = case[:6]
    skind = case[6] if len(case) > 6 else 'complex'
    # a real time step is passed as a Python float (what a user types), a non-real one as complex
    dt = complex(dtp[0], dtp[1]) if dtp[1] != 0 else float(dtp[0])
    H = ec.build_hamiltonian(name, L, ctx.rng(5))
    qd = [int(x) for x in H.qd]
    d = len(qd)
    psi = ec.make_state(ctx.rng(0), qd, qD, skind)
    ctx.cls('state_dtype:' + skind)
    v0 = dense.mps_to_vector(psi.A)
    n0 = np.linalg.norm(v0)
    if n0 < 1e-12:
        raise OutOfDomain()
    # the projected evolution is only well defined at full-rank points of the manifold (Schmidt rank == bond dimension); the statement
    # nevertheless says "for any bond dimension": rank-deficient cases are judged too, their failures carry the class [rank_deficient_bond]
    deficient = full_rank(v0 / n0, d, L) != [len(q) for q in qD[1:-1]]
    # conditioning of going forth and back in (partly) imaginary time: rounding errors are amplified by exp(2 |Re dt| n spread(H));
    # the property quantifies over |dt|*||H|| bounded - cases with an amplification above 1e3 are outside that domain
    lam = np.linalg.eigvalsh(dense.mpo_to_matrix(H.A))
    amp = float(np.exp(2 * abs(dt.real) * steps * (lam[-1] - lam[0])))
    if amp > 1e3:
        ctx.cls('ill_conditioned_dt_times_H')
        raise OutOfDomain()
    numiter = max(a.size for a in psi.A) + 2
    ptn.integrate_local_singlesite(H, psi, dt, steps, numiter_lanczos=numiter)
    v1 = dense.mps_to_vector(psi.A)
    deficient = deficient or full_rank(v1 / np.linalg.norm(v1), d, L) != [len(q) for q in qD[1:-1]]
    ctx.cls('rank_deficient_bond' if deficient else 'full_rank_bonds')
    n2 = ptn.integrate_local_singlesite(H, psi, -dt, steps, numiter_lanczos=numiter)
    ctx.calls += 2
    v2 = dense.mps_to_vector(psi.A)
    ctx.obs(v2)
    ctx.nontrivial = L >= 2
    ctx.cls(f'reverse:{"imag" if dt.real == 0 else ("real" if dt.imag == 0 else "complex")}_dt')
    ctx.close(float(np.real(n2)) * v2, v0 / n0, 'forward_then_backward_returns_initial_state' + ('[rank_deficient_bond]' if deficient else ''), tol=1e-10 * amp)
    if dt.real == 0:
        ctx.check(abs(float(np.real(n2)) - 1) <= 1e-9, 'second_call_norm_is_one_for_imaginary_dt', n2)


# ---- schedule conformance -----------------------------------------------------------------------

def _sched_cases(tier):
    for integ in ('single', 'two'):
        for L in range(1, 6):
            if integ == 'two' and L < 2:
                continue
            for steps in (1, 2):
                yield ['schedule', integ, L, steps]


def run_sched_case(case, ctx):
    _, integ, L, steps = case
    H = ptn.ising_mpo(L, 1.0, 0.3, 0.8)
    qd = [0, 0]
    qD = [[0]] + [[0, 0]] * (L - 1) + [[0]]
    psi = ec.make_state(ctx.rng(0), qd, qD)
    dt = 0.2 + 0.1j
    two = integ == 'two'
    ctx.nontrivial = L >= 2
    ctx.cls('schedule:' + integ)
    ctx.check(model_self_check(L, two), 'HARNESS_schedule_model_self_check')
    with Recorder(2, dt) as rec:
        if two:
            ptn.integrate_local_twosite(H, psi, dt, steps, numiter_lanczos=10)
        else:
            ptn.integrate_local_singlesite(H, psi, dt, steps, numiter_lanczos=10)
    ctx.calls += 1
    model = [(k, f) for (k, i, f) in schedule_model(L, steps, two)]
    got = [(k, round(f.real, 12) if abs(f.imag) < 1e-12 else f) for (k, f) in rec.trace]
    ctx.obs(repr(got))
    ctx.check(got == model, 'substep_schedule_matches_symmetric_model', f'got {got[:8]}... expected {model[:8]}...')


def sig(case):
    return f'{case[0]}:{case[1]}:L={case[2]}'


def spaces(tier, seed):
    return [
        Space('exactness', core.chunked(_exact_cases(tier), 10), run_case=run_exact_case, sig=sig,
              bounds={'hamiltonians': ec.ALL_H, 'sector_dim<=': 64 if tier == 'quick' else 256, 'dt': [str(x) for x in DTS], 'steps': [1, 2, 3],
                      'layout': 'every sector-complete (maximal) layout; failures of layouts without a complete split are classed [no_complete_split]'}),
        Space('reversibility', core.chunked(_rev_cases(tier), 10), run_case=run_rev_case, sig=sig,
              bounds={'hamiltonians': ec.ALL_H, 'L': [1, 2, 3, 4], 'profiles': ['one', 'small', 'maximal', 'over'], 'dt': [str(x) for x in DTS],
                      'domain': 'amplification exp(2|Re dt| n spread(H)) <= 1e3; rank-deficient states are judged and classed [rank_deficient_bond]'}),
        Space('schedule', core.chunked(_sched_cases(tier), 2), run_case=run_sched_case, sig=sig,
              bounds={'L': [1, 2, 3, 4, 5], 'steps': [1, 2], 'integrators': ['single', 'two']}),
    ]
