"""
C14 - Lanczos and Arnoldi iterations satisfy their Krylov factorisation relations.
"""

import warnings

import numpy as np

from mc import core
from mc.core import Space
from props import krylov_common as kc

from pytenet.krylov import lanczos_iteration, arnoldi_iteration

ID = 'C14'
LEVEL = 'model_checking'
RULE = ('every n<=N, 1<=m<=n, matrix kind, start kind, invariant-block size and map presentation {fresh array, reused buffer, '
        'view of the argument}; non-trivial = n>=2 and m>=2')
BUDGET = {'quick': 300, 'thorough': 2400}


def _cases(N, NU):
    for n in range(1, N + 1):
        for algo, kinds in (('lanczos', kc.MATRIX_KINDS_H), ('arnoldi', kc.MATRIX_KINDS_G + kc.MATRIX_KINDS_H)):
            for kind in kinds:
                ks = range(1, n) if kind.startswith('block_invariant') else (range(1, n + 1) if kind == 'nilpotent_chain' else [0])
                for k in ks:
                    for sk in kc.START_KINDS:
                        for how in kc.PRESENTATIONS:
                            if how == 'view' and kind not in ('reversal', 'identity'):
                                continue
                            for m in range(1, n + 1):
                                yield [algo, n, m, kind, k, sk, how]
                                if how == 'fresh' and n <= NU:
                                    for units in list(kc.UNITS)[1:]:
                                        yield [algo, n, m, kind, k, sk, how, units]


def run_case(case, ctx):
    algo, n, m, kind, k, sk, how = case[:7]
    units = case[7] if len(case) > 7 else 'unit'
    A, v, kd = kc.build(ctx.rng(0), n, kind, sk, k)
    # units: the map and the start vector times exact powers of two; everything is judged after undoing the scaling
    sa, sv = kc.UNITS[units]
    A, v = A * sa, v * sv
    f = kc.present(A, kind, how)
    ctx.cls('units:' + units)
    n0 = len(ctx.fails)
    known = kc.below_threshold(A, v, m, kd)
    if known:
        ctx.cls('genuine_offdiagonal_below_absolute_threshold')
    try:
        _judge(ctx, algo, n, m, kd, A / sa, v, f, sa, how)
    finally:
        if known:
            kc.add_class(ctx, n0, kc.KNOWN_CLASS)


def _judge(ctx, algo, n, m, kd, A, v, f, sa, how):
    v_in = v.copy()
    ctx.nontrivial = n >= 2 and m >= 2
    ctx.cls(f'{algo}:{"full" if kd >= m else "exhausted_early"}')
    ctx.cls('map:' + how)
    with warnings.catch_warnings():
        warnings.simplefilter('ignore')
        if algo == 'lanczos':
            alpha, beta, V = lanczos_iteration(f, v, m)
        else:
            H, V = arnoldi_iteration(f, v, m)
    ctx.calls += 1
    ctx.check(np.array_equal(v, v_in), 'start_vector_unchanged')
    if algo == 'lanczos':
        alpha, beta = alpha / sa, beta / sa
        ctx.obs(alpha, beta, V)
        kk = len(alpha)
        if not ctx.check(V.ndim == 2 and V.shape == (n, kk) and len(beta) == kk - 1 and 1 <= kk <= m, 'output_sizes_consistent',
                         f'alpha{np.shape(alpha)} beta{np.shape(beta)} V{np.shape(V)} m={m}'):
            return
        if kd >= m:
            ctx.check(kk == m, 'full_length_when_krylov_space_large_enough', f'len={kk} m={m} kd={kd}')
        lead = min(kk, kd)
        ctx.check(bool(np.all(np.isfinite(alpha)) and np.all(np.isfinite(beta)) and np.all(np.isfinite(V))), 'outputs_finite')
        ctx.check(np.isrealobj(alpha) and np.isrealobj(beta), 'coefficients_real')
        Vl = V[:, :lead]
        ctx.close(Vl.conj().T @ Vl, np.identity(lead), 'lanczos_vectors_orthonormal', tol=1e-9)
        ctx.check(bool(np.all(beta[:lead - 1] > 0)), 'offdiagonals_positive', beta)
        T = np.diag(alpha[:lead]) + np.diag(beta[:lead - 1], 1) + np.diag(beta[:lead - 1], -1)
        ctx.close(Vl.conj().T @ A @ Vl, T, 'projected_map_equals_tridiagonal', tol=1e-9)
        ctx.close(V[:, 0], v_in / np.linalg.norm(v_in), 'first_vector_is_normalised_start', tol=1e-12)
    else:
        H = H / sa
        ctx.obs(H, V)
        kk = H.shape[0]
        if not ctx.check(H.ndim == 2 and H.shape == (kk, kk) and V.shape == (n, kk) and 1 <= kk <= m, 'output_sizes_consistent',
                         f'H{np.shape(H)} V{np.shape(V)} m={m}'):
            return
        if kd >= m:
            ctx.check(kk == m, 'full_length_when_krylov_space_large_enough', f'len={kk} m={m} kd={kd}')
        lead = min(kk, kd)
        ctx.check(bool(np.all(np.isfinite(H)) and np.all(np.isfinite(V))), 'outputs_finite')
        Vl = V[:, :lead]
        Hl = H[:lead, :lead]
        ctx.close(Vl.conj().T @ Vl, np.identity(lead), 'arnoldi_vectors_orthonormal', tol=1e-9)
        ctx.check(not np.any(np.tril(Hl, -2) != 0), 'upper_hessenberg')
        sub = np.diag(Hl, -1)
        ctx.check(bool(np.all(sub.imag == 0) and np.all(sub.real > 0)), 'subdiagonal_positive', sub)
        ctx.close(Vl.conj().T @ A @ Vl, Hl, 'projected_map_equals_hessenberg', tol=1e-9)


def sig(case):
    return f'{case[0]}:{case[3]}:{case[6]}' + (':' + case[7] if len(case) > 7 else '')


def spaces(tier, seed):
    N = 10 if tier == "quick" else 12
    NU = 8 if tier == "quick" else 10
    return [Space('krylov_iterations', core.chunked(_cases(N, NU), 200), run_case=run_case, sig=sig,
                  bounds={'n<=': N, 'units': f'{list(kc.UNITS)} for n <= {NU} (fresh presentation)', 'm': '1..n', 'matrix_kinds': kc.MATRIX_KINDS_H + kc.MATRIX_KINDS_G, 'start_kinds': kc.START_KINDS,
                          'presentations': kc.PRESENTATIONS})]
