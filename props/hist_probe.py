"""
History states as start points: the C02 worlds and menu are explored breadth-first, and on every state reached a property-specific
*probe* (the oracle of another property, run on deep copies of the live objects) is evaluated.  This covers "start from non-initial
states": objects produced by +, apply_operator, compress, TDVP, DMRG, from_vector ... rather than by the palette constructors.
"""

import copy

from mc.core import Space
from mc.history import explore_from, replay_history
from props import c02


class ProbeSystem(c02.MPSSystem):
    def __init__(self, probe):
        super().__init__()
        self.probe = probe

    def check_state(self, w, ctx):
        self.probe(w, ctx)

    def check(self, before, after, label, info, ctx):
        pass


def _build_prefixed(system):
    def build(desc):
        w = c02.build_world(desc)
        for label in desc.get('prefix', []):
            lt = tuple(label)
            match = [(l, ok, fn) for (l, ok, fn) in system.enabled(w) if tuple(l) == lt]
            match[0][2](w, None)
        return w
    return build


def probe_space(name, worlds, depth, probe, system=None):
    """BFS to `depth` from every world; sharded by first transition so that the 16 workers share the work."""
    system = system or ProbeSystem(probe)
    build = _build_prefixed(system)

    def run_chunk(chunk, seed):
        desc, dep = chunk
        try:
            build(desc)
        except Exception:  # noqa: BLE001 - a failing first operation is reported by the root chunk of the world
            from mc.core import ChunkResult
            r = ChunkResult()
            r.extra['prefix_not_buildable'] += 1
            return r
        return explore_from(system, desc, build, dep, seed, name)

    def sig(case):
        return case['init']['world'] + ':' + '>'.join(str(o[0]) for o in case['init'].get('prefix', []) + case['ops'])

    chunks = []
    for wn in worlds:
        if depth <= 2:
            chunks.append(({'world': wn}, depth))
            continue
        w = c02.build_world({'world': wn})
        chunks.append(({'world': wn}, 1))
        for (label, ok, fn) in system.enabled(w):
            if ok:
                chunks.append(({'world': wn, 'prefix': [list(label)]}, depth - 1))
    sp = Space(name, chunks, run_chunk=run_chunk, sig=sig,
               bounds={'worlds': list(worlds), 'depth': depth, 'menu': 'the 30-operation menu of C02 (props/c02.py)',
                       'probe': 'oracle of this property evaluated on deep copies of the objects of every reached state'})
    sp.history_system = system
    sp.history_build = build
    return sp


def replay(space, case, seed):
    return replay_history(space.history_system, case['init'], space.history_build, case['ops'], seed, space.name)
