"""
History states as start points: the C02 worlds and menu are explored breadth-first, and on every state reached a property-specific
*probe* (the oracle of another property, run on deep copies of the live objects) is evaluated.  This covers "start from non-initial
states": objects produced by +, apply_operator, compress, TDVP, DMRG, from_vector ... rather than by the palette constructors.
"""

import copy

from mc.core import Space
from mc.history import explore_from, replay_history
from props import c02


class ProbeSystem(c02.MPSSystem):
    def __init__(self, probe):
        super().__init__()
        self.probe = probe

    def check_state(self, w, ctx):
        self.probe(w, ctx)

    def check(self, before, after, label, info, ctx):
        pass


def probe_space(name, worlds, depth, probe):
    system = ProbeSystem(probe)

    def run_chunk(chunk, seed):
        desc, dep = chunk
        return explore_from(system, desc, c02.build_world, dep, seed, name)

    def sig(case):
        return case['init']['world'] + ':' + '>'.join(str(o[0]) for o in case['ops'])

    sp = Space(name, [({'world': w}, depth) for w in worlds], run_chunk=run_chunk, sig=sig,
               bounds={'worlds': list(worlds), 'depth': depth, 'menu': 'the 28-operation menu of C02 (props/c02.py)',
                       'probe': 'oracle of this property evaluated on deep copies of the objects of every reached state'})
    sp.history_system = system
    return sp


def replay(space, case, seed):
    return replay_history(space.history_system, case['init'], c02.build_world, case['ops'], seed, space.name)
