"""
C12 - block-sparse SVD split truncates exactly the smallest weights within tolerance.
"""

import itertools

import numpy as np

from mc import core, palette
from mc.core import Space
from mc.truncmodel import kept_range, discarded_weight2

from pytenet.bond_ops import split_matrix_svd
from pytenet.mps import split_mps_tensor

ID = 'C12'
LEVEL = 'model_checking'
RULE = ('full product of shapes x charge-vector pairs over a 3-letter alphabet x charge maps x spectrum kinds '
        '{complex,real,rankdef,degenerate,dyadic,zero} x tolerance set (incl. exact cumulative weights 1/4,1/2,3/4 of dyadic spectra); '
        'two-site tensor split over d0,d1,D0,D2 in {1,2} x charges x 3 distributions; non-trivial = non-zero matrix with a shared charge')
BUDGET = {'quick': 400, 'thorough': 3000}
KINDS = ['complex', 'real', 'rankdef', 'zeroblock', 'degenerate', 'dyadic', 'wide', 'zero', 'tiny', 'large', 'multiscale']
SCALES = {'tiny': 2.0 ** -60, 'large': 2.0 ** 60}
TOLS = [0.0, 1e-20, 1e-12, 0.1, 0.25, 0.5, 0.75, 0.9, 0.2499, 0.2501]
DELTA = 1e-12


def oracle_spectrum(A, q0, q1, with_etas=False):
    """Per-charge dense SVD done here: multiset of singular values (and, on request, the absolute accuracy 8 eps sigma_max(sector)
    that a backward-stable SVD of each sector guarantees for them)."""
    sig, etas = [], []
    for q in np.unique(q0):
        r = np.where(q0 == q)[0]
        c = np.where(q1 == q)[0]
        if len(r) and len(c):
            sq = np.linalg.svd(A[np.ix_(r, c)], compute_uv=False).tolist()
            sig.extend(sq)
            etas.extend([8 * 2.220446049250313e-16 * max(sq)] * len(sq))
    return (sig, etas) if with_etas else sig


def judge_split(ctx, A0, u, s, v, q, q0, q1, tol, zero_ok=True):
    m, n = A0.shape
    s = np.asarray(s)
    q = np.asarray(q)
    k = len(s)
    if not ctx.check(u.ndim == 2 and v.ndim == 2 and u.shape == (m, k) and v.shape == (k, n) and len(q) == k,
                     'shapes_consistent', f'u{u.shape} s{s.shape} v{v.shape} q{q.shape}'):
        return
    nrmA2 = float(np.sum(np.abs(A0) ** 2))
    prod = (u * s) @ v
    if nrmA2 == 0:
        ctx.close(prod, A0, 'zero_matrix_product_zero')
        return
    sig, etas = oracle_spectrum(A0, q0, q1, with_etas=True)
    k_lo, k_hi, exact = kept_range(sig, tol, DELTA, etas=etas)
    if exact:
        ctx.cls('exact_boundary_eligible')
        if any(abs(tol - j / len(sig)) == 0 for j in range(1, len(sig))):
            ctx.cls('tol_equals_cumulative_weight')
    ctx.check(k_lo <= k <= k_hi, 'kept_count_follows_tolerance_rule', f'k={k} admissible=[{k_lo},{k_hi}] tol={tol} sigma={sorted(sig)}')
    ctx.cls('truncated' if k < len([x for x in sig if x > 0]) else 'not_truncated')
    ctx.check(bool(np.all(s > 0)), 'singular_values_positive', s)
    ctx.close(u.conj().T @ u, np.identity(k), 'u_isometry')
    ctx.close(v @ v.conj().T, np.identity(k), 'v_isometry')
    ctx.check(not np.any((q0[:, None] != q[None, :]) & (u != 0)), 'u_block_sparse')
    ctx.check(not np.any((q[:, None] != q1[None, :]) & (v != 0)), 'v_block_sparse')
    top = np.sort(np.asarray(sig))[::-1][:k]
    if len(top) == k:
        ctx.close(np.sort(s)[::-1], top, 'kept_values_are_the_largest')
    # error identity, squared form
    err2 = float(np.sum(np.abs(prod - A0) ** 2))
    d2 = discarded_weight2(sig, k)
    ctx.check(abs(err2 - d2) <= 1e-10 * (1 + nrmA2), 'error_equals_discarded_weight', f'err2={err2:.6e} disc2={d2:.6e}')
    ctx.check(d2 <= (tol + 1e-10) * nrmA2 + 1e-300, 'discarded_weight_within_tolerance', f'{d2 / nrmA2:.3e} > {tol}')
    if tol == 0:
        ctx.close(prod, A0, 'zero_tolerance_exact')


def _cases(N, maps, kinds):
    shapes = sorted(((m, n) for m in range(1, N + 1) for n in range(1, N + 1)), key=lambda s: (s[0] + s[1], s))
    for (m, n) in shapes:
        for q0 in palette.vectors(m, palette.P3):
            for q1 in palette.vectors(n, palette.P3):
                for cm in maps:
                    for kind in kinds:
                        yield [list(q0), list(q1), cm, kind]


def run_case(case, ctx):
    q0l, q1l, cm, kind = case
    f = palette.charge_map(cm)
    q0, q1 = f(q0l), f(q1l)
    # 'tiny' / 'large': generic entries times an exact power of two (the split is judged after undoing the scaling)
    sc = SCALES.get(kind, 1.0)
    A = palette.block_matrix(ctx.rng(0), q0, q1, 'complex' if kind in SCALES or kind == 'multiscale' else kind) * sc
    if kind == 'multiscale':
        # charge sectors of wildly different magnitude: the sector of the j-th distinct charge is multiplied by 2^(-60 j), so its
        # relative weight 2^(-120 j) lies far below eps^2 and far above the underflow threshold; the rule stays a relative one
        rank = {q: j for j, q in enumerate(sorted(set(q0.tolist()) | set(q1.tolist())))}
        A = A * np.array([2.0 ** (-60 * rank[q]) for q in q0.tolist()])[:, None]
    if kind in ('real', 'dyadic'):
        A = A.real.copy()
    # memory layout of the argument: C-contiguous, Fortran-ordered, or a non-contiguous view (keyed by the case, all three occur)
    lay = (len(q0l) + 2 * len(q1l) + sum(q0l) + sum(q1l)) % 3
    if lay == 1:
        A = np.asfortranarray(A)
    elif lay == 2:
        big = np.zeros((2 * len(q0), 2 * len(q1)), dtype=A.dtype)
        big[::2, ::2] = A
        A = big[::2, ::2]
    ctx.cls(('layout:C', 'layout:F', 'layout:strided_view')[lay])
    shared = bool(set(q0.tolist()) & set(q1.tolist()))
    ctx.cls('kind:' + kind)
    ctx.cls(f'q0:{palette.sortedness(q0)},q1:{palette.sortedness(q1)}' if shared else 'disjoint')
    ctx.nontrivial = shared and bool(np.any(A != 0))
    strides0 = A.strides
    for tol in TOLS:
        A0 = A.copy()
        u, s, v, q = split_matrix_svd(A, q0, q1, tol)
        ctx.calls += 1
        ctx.obs(u, s, v)
        ctx.check(np.array_equal(A, A0) and A.dtype == A0.dtype and A.strides == strides0, 'input_not_modified')
        nf = len(ctx.fails)
        judge_split(ctx, A0 / sc, u, np.asarray(s) / sc, v, q, q0, q1, tol)
        if len(ctx.fails) > nf:
            ctx.fails[nf] = (ctx.fails[nf][0], f'tol={tol} ' + str(ctx.fails[nf][1]))
            return


def sig(case):
    return f'{len(case[0])}x{len(case[1])}:{case[2]}:{case[3]}'


# ---- two-site tensor split -------------------------------------------------------------------

def _split_cases(tier):
    dims = [1, 2]
    alph = palette.A2 if tier == 'quick' else palette.A3
    for d0, d1, D0, D2 in itertools.product(dims, repeat=4):
        for qd0 in palette.vectors(d0, alph):
            for qd1 in palette.vectors(d1, alph):
                for qD0 in palette.vectors(D0, alph):
                    for qD2 in palette.vectors(D2, alph):
                        for kind in ('complex', 'rankdef', 'dyadic'):
                            yield [list(qd0), list(qd1), list(qD0), list(qD2), kind]


def run_split_case(case, ctx):
    qd0, qd1, qD0, qD2, kind = case
    qd0, qd1, qD0, qD2 = (np.asarray(x, dtype=np.int64) for x in (qd0, qd1, qD0, qD2))
    d0, d1, D0, D2 = len(qd0), len(qd1), len(qD0), len(qD2)
    # matrix view: rows (s0,l) charge qd0+qD0 ; cols (s1,r) charge -qd1+qD2
    q0 = (qd0[:, None] + qD0[None, :]).reshape(-1)
    q1 = (-qd1[:, None] + qD2[None, :]).reshape(-1)
    M = palette.block_matrix(ctx.rng(0), q0, q1, kind)
    # tensor A[(s0 s1), l, r]
    A = M.reshape(d0, D0, d1, D2).transpose(0, 2, 1, 3).reshape(d0 * d1, D0, D2).copy()
    ctx.nontrivial = bool(np.any(A != 0))
    ctx.cls('kind:' + kind)
    for distr in ('left', 'right', 'sqrt'):
        for tol in (0.0, 0.1, 0.25, 0.5, 0.2501):
            Ain = A.copy()
            A0, A1, qb = split_mps_tensor(Ain, qd0, qd1, [qD0, qD2], distr, tol)
            ctx.calls += 1
            ctx.obs(A0, A1)
            ctx.check(np.array_equal(Ain, A) and Ain.shape == A.shape, 'input_not_modified', f'{distr} tol={tol}')
            qb = np.asarray(qb)
            k = len(qb)
            if not ctx.check(A0.shape == (d0, D0, k) and A1.shape == (d1, k, D2), 'split_shapes', f'{A0.shape} {A1.shape} {k}'):
                return
            # block sparsity of both factors under the returned bond charges
            ctx.check(not np.any(((qd0[:, None, None] + qD0[None, :, None] - qb[None, None, :]) != 0) & (A0 != 0)), 'A0_block_sparse', distr)
            ctx.check(not np.any(((qd1[:, None, None] + qb[None, :, None] - qD2[None, None, :]) != 0) & (A1 != 0)), 'A1_block_sparse', distr)
            merged = np.einsum('alk,bkr->ablr', A0, A1).reshape(d0 * d1, D0, D2)
            nrm2 = float(np.sum(np.abs(A) ** 2))
            if nrm2 == 0:
                ctx.close(merged, A, 'zero_tensor_product_zero')
                continue
            sig_all = oracle_spectrum(M, q0, q1)
            k_lo, k_hi, exact = kept_range(sig_all, tol, DELTA)
            ctx.check(k_lo <= k <= k_hi, 'split_kept_count_follows_rule', f'{distr} tol={tol} k={k} [{k_lo},{k_hi}]')
            err2 = float(np.sum(np.abs(merged - A) ** 2))
            d2 = discarded_weight2(sig_all, k)
            ctx.check(abs(err2 - d2) <= 1e-10 * (1 + nrm2), 'split_error_equals_discarded_weight', f'{distr} tol={tol} err2={err2:.3e} d2={d2:.3e}')
            if tol == 0:
                ctx.close(merged, A, 'merge_undoes_zero_tolerance_split', )
            # where the singular values went
            L0 = A0.reshape(d0 * D0, k)
            R1 = A1.transpose(1, 0, 2).reshape(k, d1 * D2)
            if distr == 'right':
                ctx.close(L0.conj().T @ L0, np.identity(k), 'right_distribution_left_factor_isometric')
            if distr == 'left':
                ctx.close(R1 @ R1.conj().T, np.identity(k), 'left_distribution_right_factor_isometric')
            if ctx.fails:
                return


def spaces(tier, seed):
    if tier == 'quick':
        sp = [Space('svd', core.chunked(_cases(4, ['id'], KINDS), 1500), run_case=run_case, sig=sig,
                    bounds={'m,n<=': 4, 'charge_alphabet': [0, 1, 2], 'charge_maps': ['id'], 'kinds': KINDS, 'tols': TOLS}),
              Space('svd_maps', core.chunked(_cases(3, ['neg', 'enc'], ['complex', 'rankdef', 'dyadic']), 1500), run_case=run_case, sig=sig,
                    bounds={'m,n<=': 3, 'charge_maps': ['neg', 'enc'], 'tols': TOLS})]
    else:
        sp = [Space('svd', core.chunked(_cases(5, ['id'], KINDS), 1500), run_case=run_case, sig=sig,
                    bounds={'m,n<=': 5, 'charge_alphabet': [0, 1, 2], 'charge_maps': ['id'], 'kinds': KINDS, 'tols': TOLS}),
              Space('svd_maps', core.chunked(_cases(4, ['neg', 'enc', 'big'], KINDS), 1500), run_case=run_case, sig=sig,
                    bounds={'m,n<=': 4, 'charge_maps': ['neg', 'enc', 'big'], 'tols': TOLS})]
    sp.append(Space('split_tensor', core.chunked(_split_cases(tier), 400), run_case=run_split_case,
                    bounds={'d0,d1,D0,D2': [1, 2], 'charges': 'A2 quick / A3 thorough', 'distr': ['left', 'right', 'sqrt'],
                            'tols': [0.0, 0.1, 0.25, 0.5, 0.2501]}))
    return sp
