"""Shared construction of Krylov test problems for C14 / C15."""

import numpy as np

from mc import palette

MATRIX_KINDS_H = ['real_symmetric', 'complex_hermitian', 'degenerate', 'block_invariant', 'reversal', 'identity', 'kernel', 'weakly_coupled']
MATRIX_KINDS_G = ['real_general', 'complex_general', 'block_invariant_general', 'nilpotent_chain']
START_KINDS = ['complex', 'real']
PRESENTATIONS = ['fresh', 'buffer', 'view']
# units of the map and of the start vector (exact powers of two): (scale of A, scale of v)
UNITS = {'unit': (1.0, 1.0), 'small': (2.0 ** -30, 1.0), 'tiny': (2.0 ** -50, 1.0), 'large': (2.0 ** 50, 1.0),
         'tiny_start': (1.0, 2.0 ** -50), 'large_start': (1.0, 2.0 ** 50)}
# the library's breakdown test is absolute: beta < 100 * n * eps
KNOWN_CLASS = '[offdiagonal_below_absolute_breakdown_threshold]'


def breakdown_threshold(n):
    return 100 * n * np.finfo(float).eps


def reference_offdiagonals(A, v, steps):
    """
    Norms of the successive new Krylov directions (the Lanczos beta_j / Arnoldi H[j+1,j] in exact arithmetic) computed here by
    Gram-Schmidt with double re-orthogonalisation and no threshold; `steps` of them (the caller knows the Krylov dimension).
    """
    V = [np.asarray(v, dtype=complex) / np.linalg.norm(v)]
    out = []
    for j in range(steps):
        w = A @ V[j]
        for _ in range(2):
            for u in V:
                w = w - np.vdot(u, w) * u
        h = float(np.linalg.norm(w))
        out.append(h)
        if h == 0:
            break
        V.append(w / h)
    return out


def below_threshold(A, v, m, kd):
    """True when a genuine off-diagonal coefficient needed for min(m, kd) vectors is not safely (factor 10) above the absolute test."""
    steps = min(m, kd) - 1
    if steps <= 0:
        return False
    h = reference_offdiagonals(A, v, steps)
    return len(h) < steps or min(h) < 10 * breakdown_threshold(A.shape[0])


def add_class(ctx, n0, suffix):
    """Append a class suffix to the clause names of the failures recorded since position n0."""
    for i in range(n0, len(ctx.fails)):
        ctx.fails[i] = (ctx.fails[i][0] + suffix,) + tuple(ctx.fails[i][1:])


def unitary(rng, n, real=False):
    x = palette.generic(rng, (n, n), 'real' if real else 'complex')
    q, r = np.linalg.qr(x)
    return q


def build(rng, n, kind, start_kind, k_inv):
    """
    Returns (A, v, kd): matrix, start vector and the dimension of the Krylov space of (A, v), known by construction.
    k_inv: size of the invariant block for the block_* kinds (1..n-1); ignored otherwise.
    """
    def start(sz):
        return palette.generic(rng, sz, 'real' if start_kind == 'real' else 'complex')

    if kind == 'real_symmetric':
        U = unitary(rng, n, real=True)
        lam = np.linspace(-1.0, 1.5, n) if n > 1 else np.array([0.7])
        A = (U * lam) @ U.T
        A = (A + A.T) / 2
        return A, start(n), n
    if kind == 'complex_hermitian':
        U = unitary(rng, n)
        lam = np.linspace(-2.0, 1.0, n) if n > 1 else np.array([-0.4])
        A = (U * lam) @ U.conj().T
        A = (A + A.conj().T) / 2
        return A, start(n), n
    if kind == 'degenerate':
        # eigenvalues -1 (multiplicity ceil(n/2)) and +2 (rest), generic overlaps: Krylov dimension = number of distinct values
        U = unitary(rng, n)
        h = (n + 1) // 2
        lam = np.array([-1.0] * h + [2.0] * (n - h))
        A = (U * lam) @ U.conj().T
        A = (A + A.conj().T) / 2
        return A, start(n), len(set(lam.tolist()))
    if kind in ('block_invariant', 'block_invariant_general'):
        k = k_inv
        if kind == 'block_invariant':
            U1 = unitary(rng, k)
            A1 = (U1 * (np.linspace(-1.0, 1.0, k) if k > 1 else np.array([0.3]))) @ U1.conj().T
            A1 = (A1 + A1.conj().T) / 2
            U2 = unitary(rng, n - k)
            A2 = (U2 * (np.linspace(-3.0, 2.0, n - k) if n - k > 1 else np.array([-3.0]))) @ U2.conj().T
            A2 = (A2 + A2.conj().T) / 2
        else:
            A1 = palette.generic(rng, (k, k), 'complex')
            A2 = palette.generic(rng, (n - k, n - k), 'complex')
        A = np.zeros((n, n), dtype=complex)
        A[:k, :k] = A1
        A[k:, k:] = A2
        v = np.zeros(n, dtype=complex)
        v[:k] = start(k)
        return A, v, k
    if kind == 'weakly_coupled':
        # two blocks coupled with strength 1e-5, start vector in the first block: the Krylov space is the full space, but one
        # off-diagonal coefficient is of order 1e-5 - far above the breakdown threshold, the iteration has to continue through it
        k = max(1, n // 2)
        U1 = unitary(rng, k)
        A1 = (U1 * (np.linspace(-1.0, 1.0, k) if k > 1 else np.array([0.3]))) @ U1.conj().T
        A = np.zeros((n, n), dtype=complex)
        A[:k, :k] = (A1 + A1.conj().T) / 2
        if n - k > 0:
            U2 = unitary(rng, n - k)
            A2 = (U2 * (np.linspace(-2.5, 2.2, n - k) if n - k > 1 else np.array([-2.5]))) @ U2.conj().T
            A[k:, k:] = (A2 + A2.conj().T) / 2
            C = 1e-5 * palette.generic(rng, (k, n - k), 'complex')
            A[:k, k:] = C
            A[k:, :k] = C.conj().T
        v = np.zeros(n, dtype=complex)
        v[:k] = start(k)
        return A, v, n
    if kind == 'kernel':
        # start vector exactly in the kernel: A v = 0 exactly (zero-energy eigenstate), Krylov dimension 1
        k = max(1, n // 2)
        A = np.zeros((n, n), dtype=complex)
        if n - k > 0:
            U2 = unitary(rng, n - k)
            A2 = (U2 * (np.linspace(-1.5, 2.0, n - k) if n - k > 1 else np.array([1.2]))) @ U2.conj().T
            A[k:, k:] = (A2 + A2.conj().T) / 2
        v = np.zeros(n, dtype=complex)
        v[:k] = start(k)
        return A, v, 1
    if kind == 'nilpotent_chain':
        # A e_i = e_{i+1} for i < k-1, A e_{k-1} = 0 exactly; generic block elsewhere; start e_0: Krylov dimension k
        k = k_inv
        A = np.zeros((n, n), dtype=complex)
        for i in range(k - 1):
            A[i + 1, i] = 1.0
        if n - k > 0:
            A[k:, k:] = palette.generic(rng, (n - k, n - k), 'complex')
        v = np.zeros(n, dtype=complex if start_kind == 'complex' else float)
        v[0] = 2.0
        return A, v, k
    if kind == 'reversal':
        A = np.identity(n)[::-1].copy()
        # eigenvalues +-1: Krylov dimension 2 for a generic vector (1 for n == 1)
        return A, start(n), min(n, 2)
    if kind == 'identity':
        return np.identity(n), start(n), 1
    if kind == 'real_general':
        return palette.generic(rng, (n, n), 'real'), start(n), n
    if kind == 'complex_general':
        return palette.generic(rng, (n, n), 'complex'), start(n), n
    raise ValueError(kind)


def present(A, kind, how):
    """Matrix-free presentation of x -> A @ x."""
    if how == 'fresh':
        return lambda x: A @ x
    if how == 'buffer':
        buf = np.zeros(A.shape[0], dtype=complex)

        def f(x):
            buf[:] = A @ x
            return buf
        return f
    if how == 'view':
        if kind == 'reversal':
            return lambda x: x[::-1]
        if kind == 'identity':
            return lambda x: x
        return None
    raise ValueError(how)
