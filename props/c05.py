"""
C05 - operator chains compile to an equivalent operator graph and MPO.

Programs: ordered lists of chains (istart, word, coeff[, interior charges]) over small alphabets.
Reference: exact path polynomial {word: Fraction}; faithful dense map for the MPO stage.
"""

import itertools

import numpy as np

from mc import core, symbolic as sym
from mc.core import Space, OutOfDomain

from pytenet.opchain import OpChain
from pytenet.opgraph import OpGraph
from pytenet.mpo import MPO

ID = 'C05'
LEVEL = 'model_checking'
RULE = ('all ordered lists (with repetition) of up to K chains from the complete chain menu for lattice length L; a chain is '
        '(start site, word over the letter alphabet incl. the identity id, coefficient in {1,-1,2,1/2,0,2^-27}); three charge modes; '
        'non-trivial = at least two chains with non-zero coefficient, or a single chain with coefficient != 1')
BUDGET = {'quick': 400, 'thorough': 3600}
TINY = 2.0 ** -27     # non-zero, exactly representable, below the default absolute tolerance of np.isclose
COEFFS = [1.0, -1.0, 2.0, 0.5, 0.0, TINY]
# complex coefficients (written as strings in cases so that replay files stay JSON): sums cancel exactly (1j + -1j) or stay complex
CCOEFFS = [1.0, '1j', '-1j', '(0.5-0.5j)']
NEAR1 = 1.0 + 2.0 ** -18       # equal to 1 under np.isclose, different from 1 for the exact comparison
MERSENNE = 2 ** 61 - 1         # hash(x) == hash(x + MERSENNE) for Python integers; also hash(-1) == hash(-2)


def cval(c):
    return complex(c) if isinstance(c, str) else c


def words(L, letters):
    """(istart, word) for all placements."""
    out = []
    for n in range(1, L + 1):
        for istart in range(0, L - n + 1):
            for w in itertools.product(letters, repeat=n):
                out.append((istart, list(w)))
    return out


def menu(L, letters, mode, coeffs):
    m = []
    for istart, w in words(L, letters):
        if mode == 'consistent':
            q = [0]
            for o in w:
                q.append(q[-1] + sym.LETTER_CHARGE[o])
            if q[-1] != 0:
                continue
            qs = [q]
        elif mode in ('interior', 'interior_neg'):
            # ('interior_neg': interior bond charges -1 and -2, two values with the same Python hash)
            qs = [[0] + list(t) + [0] for t in itertools.product((0, 1) if mode == 'interior' else (-1, -2), repeat=len(w) - 1)]
        else:
            qs = [[0] * (len(w) + 1)]
        for q in qs:
            for c in coeffs:
                m.append([istart, w, c, q])
    return m


_MENUS = {}


def get_menu(L, letters, mode, coeffs):
    k = (L, tuple(letters), mode, tuple(coeffs))
    if k not in _MENUS:
        _MENUS[k] = menu(L, letters, mode, coeffs)
    return _MENUS[k]


def expand(chunk):
    L, letters, mode, coeffs, k, first = chunk
    m = get_menu(L, letters, mode, coeffs)
    for rest in itertools.product(range(len(m)), repeat=k - 1):
        yield {'L': L, 'mode': mode, 'chains': [m[first]] + [m[i] for i in rest]}


def make_chunks(L, letters, mode, coeffs, K):
    m = get_menu(L, letters, mode, coeffs)
    for k in range(1, K + 1):
        for first in range(len(m)):
            yield (L, letters, mode, coeffs, k, first)


def reference_poly(L, chains):
    p = {}
    for istart, w, c, q in chains:
        p = sym.padd(p, sym.chain_poly(istart, w, cval(c), L))
    return sym.pclean(p)


def check_mpo_from_graph(ctx, graph, qd, opmap, L, ref_dense, prefix=''):
    """MPO.from_opgraph preserves the operator, takes bond charges from nodes, nid_map locates nodes."""
    d = len(qd)
    mpo = MPO.from_opgraph(qd, graph, opmap, compute_nid_map=True)
    ctx.calls += 1
    layers = sym.graph_layers(graph)
    if not ctx.check(mpo.nsites == L, prefix + 'mpo_length', mpo.nsites):
        return None
    from mc.dense import mpo_to_matrix, mpo_masks_ok
    M = mpo_to_matrix(mpo.A)
    ctx.obs(M)
    ctx.close(M, ref_dense, prefix + 'mpo_dense_equals_operator')
    ctx.check(not mpo_masks_ok(mpo.A, mpo.qd, mpo.qD), prefix + 'mpo_block_sparse')
    for k, lay in enumerate(layers):
        exp_q = [graph.nodes[n].qnum for n in lay]
        ctx.check(list(np.asarray(mpo.qD[k]).tolist()) == exp_q, prefix + 'bond_charges_from_nodes', f'bond {k}: {mpo.qD[k]} vs {exp_q}')
        for idx, n in enumerate(lay):
            ctx.check(tuple(mpo.nid_map.get(n, ())) == (k, idx), prefix + 'nid_map_locates_node', f'node {n}: {mpo.nid_map.get(n)} vs {(k, idx)}')
    ctx.check(set(mpo.nid_map) == set(graph.nodes), prefix + 'nid_map_covers_all_nodes')
    for k in range(len(layers) - 1):
        A = np.zeros((d, d, len(layers[k]), len(layers[k + 1])), dtype=complex)
        for i, n in enumerate(layers[k]):
            for eid in graph.nodes[n].eids[1]:
                e = graph.edges[eid]
                j = layers[k + 1].index(e.nids[1])
                for oid, c in e.opics:
                    A[:, :, i, j] += c * opmap[oid]
        if A.shape != mpo.A[k].shape:
            ctx.fail(prefix + 'mpo_tensor_shape', f'{mpo.A[k].shape} vs {A.shape}')
        else:
            ctx.close(mpo.A[k], A, prefix + 'mpo_tensor_entries_from_edges')
    return mpo


def run_case(case, ctx):
    L, mode, chains = case['L'], case['mode'], case['chains']
    nz = [c for c in chains if cval(c[2]) != 0]
    if not nz:
        raise OutOfDomain()
    ocs = [OpChain(w, q, cval(c), istart) for istart, w, c, q in chains]
    if any(isinstance(c[2], str) for c in chains):
        ctx.cls('complex_coefficients')
    graph = OpGraph.from_opchains(ocs, L, 0)
    ctx.calls += 1
    ctx.nontrivial = len(nz) >= 2 or cval(nz[0][2]) != 1.0
    ref = reference_poly(L, chains)
    ctx.cls('zero_operator' if not ref else ('single_term' if len(ref) == 1 else 'multi_term'))
    if len(nz) > len(ref):
        ctx.cls('coefficients_accumulate_or_cancel')
    bad = sym.graph_consistency(graph)
    ctx.check(not bad, 'graph_consistent', bad[:2])
    ctx.check(graph.is_consistent(), 'graph_is_consistent_method')
    if bad:
        return
    ctx.check(graph.length == L, 'graph_length', graph.length)
    layers = sym.graph_layers(graph)
    ctx.check(len(layers) == L + 1, 'graph_layer_count', len(layers))
    got = sym.graph_poly(graph)
    ctx.obs(sorted((w, complex(c)) for w, c in got.items()))
    ctx.check(sym.pequal(got, ref), 'graph_operator_equals_sum_of_chains', sym.pdiff(got, ref))
    if mode in ('interior', 'interior_neg'):
        return
    qd = [0, 0] if mode == 'zero' else sym.FAITHFUL_QD
    # operator labels are arbitrary integers (negative, huge): the faithful operators are assigned by |label| mod 4
    labels = sorted({o for _, w, _, _ in chains for o in w} | {0})
    opmap = sym.FAITHFUL if all(0 <= o <= 3 for o in labels) else {o: sym.FAITHFUL[abs(o) % 4] for o in labels}
    if opmap is not sym.FAITHFUL:
        ctx.cls('unusual_operator_labels')
    refd = sym.poly_dense(ref, opmap, L, 2)
    check_mpo_from_graph(ctx, graph, qd, opmap, L, refd)
    if opmap is sym.FAITHFUL and mode == 'zero' and L <= 2 and len(chains) <= 2:
        # a second, generic (non-faithful) operator map of local dimension 3 - "all local operator maps"
        from props.c17 import GEN3
        check_mpo_from_graph(ctx, graph, [0, 0, 0], GEN3, L, sym.poly_dense(ref, GEN3, L, 3), prefix='generic_map:')
    # bound on bond dimensions is C20's business


# ---- graph -> MPO conversion on graphs reached by rewrite histories (not only on compiler output) --------------------

def _graph_history_space(tier):
    from props import c16
    from mc.history import explore_from, replay_history

    class ConvertSystem(c16.GraphSystem):
        """States and transitions of the C16 explorer; the judged invariant here is the second clause of C05:
        converting ANY consistent operator graph to an MPO preserves the operator, bond charges and node map."""

        def check(self, before, after, label, info, ctx):
            pass

        def check_state(self, g, ctx):
            if sym.graph_consistency(g):
                return      # inconsistent graphs are C16's business
            if any(n.qnum != 0 for n in g.nodes.values()):
                return      # node charges of this space are not tied to the operator map; only neutral graphs can be converted
            L = len(sym.graph_layers(g)) - 1
            ref = sym.graph_poly(g)
            check_mpo_from_graph(ctx, g, [0, 0], sym.FAITHFUL, L, sym.poly_dense(ref, sym.FAITHFUL, L, 2), prefix='history:')

    system = ConvertSystem(tier)
    descs = [d for d in c16.initial_descs('quick') if all(q == 0 for ch in d['charges'] for q in ch)]
    depth = 1 if tier == 'quick' else 2

    def run_chunk(chunk, seed):
        total = None
        for d in chunk:
            r = explore_from(system, d, c16.build_graph, depth, seed, 'graph_histories')
            if total is None:
                total = r
            else:
                total.n += r.n; total.calls += r.calls; total.states += r.states; total.disabled += r.disabled
                total.nontrivial_keys.extend(r.nontrivial_keys); total.classes.update(r.classes)
                total.fails.extend(r.fails[:5]); total.extra.update(r.extra); total.harness_errors.extend(r.harness_errors[:2])
                total.digests.extend(r.digests[:1])
        return total

    sp = Space('graph_histories', [descs[i:i + 4] for i in range(0, len(descs), 4)], run_chunk=run_chunk,
               sig=lambda case: 'ops=' + '>'.join(str(o[0]) for o in case['ops']),
               bounds={'initial_graphs': len(descs), 'depth': depth, 'what': 'charge-neutral graphs of the C16 space and every graph reached from '
                       'them by one (thorough: two) rewrites; each is converted with MPO.from_opgraph and compared with its path polynomial'})
    sp.history_system = system
    return sp


def replay_case(space, case, seed):
    if space.name == 'graph_histories':
        from props import c16
        from mc.history import replay_history
        return replay_history(space.history_system, case['init'], c16.build_graph, case['ops'], seed, 'graph_histories')
    return space.run_one(case, seed).fails


def sig(case):
    nz = [c for c in case['chains'] if cval(c[2]) != 0]
    return f'L={case["L"]}:{case["mode"]}:nchains={len(case["chains"])}:nz={len(nz)}'


def spaces(tier, seed):
    C = COEFFS
    if tier == 'quick':
        plan = [
            (1, [0, 1, 2], 'zero', C, 4),
            (2, [0, 1, 2], 'zero', C, 2),
            (2, [0, 1, 2], 'zero', [1.0, -1.0, 2.0], 3),
            (3, [0, 1], 'zero', [1.0, -1.0, 0.5], 2),
            (3, [0, 1, 2], 'zero', [1.0, 2.0], 2),
            (2, [0, 1, 2, 3], 'consistent', C, 3),
            (3, [0, 1, 2, 3], 'consistent', [1.0, -1.0, 0.5], 2),
            (2, [0, 1], 'interior', [1.0, -1.0, 2.0], 3),
            (3, [0, 1], 'interior', [1.0, 2.0], 2),
            (1, [0, 1, 2], 'zero', CCOEFFS, 3),
            (2, [0, 1, 2], 'zero', CCOEFFS, 2),
            (2, [0, 1, 2, 3], 'consistent', CCOEFFS, 2),
            (3, [0, 1], 'zero', CCOEFFS[:3], 2),
            (1, [0, 1, 2], 'zero', [1.0, NEAR1, 0.5], 3),
            (2, [0, 1, 2], 'zero', [NEAR1, 1.0], 2),
            (3, [0, 1], 'zero', [NEAR1], 2),
            (2, [0, -1, -2], 'zero', [1.0, 2.0], 2),
            (3, [0, -1, -2], 'zero', [1.0], 2),
            (2, [0, 5, 5 + MERSENNE], 'zero', [1.0, 2.0], 2),
            (3, [0, 1], 'interior_neg', [1.0, 2.0], 2),
        ]
    else:
        plan = [
            (1, [0, 1, 2, 3], 'zero', C, 4),
            (2, [0, 1, 2], 'zero', C, 3),
            (2, [0, 1, 2, 3], 'zero', [1.0, -1.0, 2.0], 3),
            (3, [0, 1, 2], 'zero', C, 2),
            (3, [0, 1], 'zero', [1.0, -1.0, 0.5], 3),
            (4, [0, 1], 'zero', [1.0, -1.0], 2),
            (2, [0, 1, 2, 3], 'consistent', C, 3),
            (3, [0, 1, 2, 3], 'consistent', [1.0, -1.0, 0.5], 3),
            (4, [0, 1, 2, 3], 'consistent', [1.0, 2.0], 2),
            (2, [0, 1, 2], 'interior', C, 3),
            (3, [0, 1], 'interior', [1.0, -1.0, 2.0], 3),
            (1, [0, 1, 2, 3], 'zero', CCOEFFS, 4),
            (2, [0, 1, 2], 'zero', CCOEFFS, 3),
            (2, [0, 1, 2, 3], 'consistent', CCOEFFS, 3),
            (3, [0, 1, 2], 'zero', CCOEFFS, 2),
            (3, [0, 1, 2, 3], 'consistent', CCOEFFS[:3], 2),
            (1, [0, 1, 2], 'zero', [1.0, NEAR1, 0.5], 3),
            (2, [0, 1, 2], 'zero', [NEAR1, 1.0], 2),
            (3, [0, 1], 'zero', [NEAR1], 2),
            (2, [0, -1, -2], 'zero', [1.0, 2.0], 3),
            (3, [0, -1, -2], 'zero', [1.0], 2),
            (2, [0, 5, 5 + MERSENNE], 'zero', [1.0, 2.0], 2),
            (3, [0, 1], 'interior_neg', [1.0, 2.0], 3),
        ]
    sps = []
    for (L, letters, mode, coeffs, K) in plan:
        tag = ('x' if any(isinstance(c, str) for c in coeffs) else '') + ('n' if NEAR1 in coeffs else '') + \
              ('neg' if min(letters) < 0 else '') + ('big' if max(letters) > 3 else '')
        name = f'chains_L{L}_{mode}_a{len(letters)}_c{len(coeffs)}{tag}_K{K}'
        sps.append(Space(name, make_chunks(L, letters, mode, coeffs, K), run_case=run_case, expand=expand, sig=sig,
                         bounds={'L': L, 'letters': letters, 'charge_mode': mode, 'coeffs': coeffs, 'max_chains': K,
                                 'menu_size': len(get_menu(L, letters, mode, coeffs))}))
    sps.append(_graph_history_space(tier))
    return sps
