"""
C03 - MPS/MPO arithmetic agrees with dense linear algebra.
"""

import itertools

import numpy as np

from mc import core, palette, dense
from mc.core import Space

from pytenet.mps import MPS, merge_mps_tensor_pair, split_mps_tensor
from pytenet.mpo import MPO
from pytenet.operation import apply_operator

ID = 'C03'
LEVEL = 'model_checking'
RULE = ('operand pairs: L x qd x independent bond profiles x every sector-consistent charge layout (all tuples over the reachable charges '
        'of each bond) x dtype combination x operation; identity / dense-vs-sparse / from_vector / split-merge over their own full '
        'parameter products; non-trivial = both operands non-zero with at least one bond of dimension >= 2')
BUDGET = {'quick': 400, 'thorough': 3600}
DTYPES = ['cc', 'rr', 'rc', 'cr']
# dtypes varying from site to site within one operand (see _site_dtypes)
DTYPES_SITE = ['mr', 'rm', 'mm', 'wm', 'fv', 'vf', 'uU', 'Uc']
QDS = [[0, 1], [1, -1], [0, 0], [0]]


def _site_dtypes(A, code):
    """
    Per-site dtypes of an operand: 'r' all real, 'c' all complex, 'm' real boundary tensors with complex interior,
    'w' complex first tensor and real elsewhere; memory layout: 'f' complex column-major, 'v' complex strided views
    'u' / 'U' complex with unbalanced power-of-two units (True is read as 'r', False as 'c').
    """
    code = {True: 'r', False: 'c'}.get(code, code)
    L = len(A)
    if code in ('u', 'U'):
        # unbalanced units: the tensors carry exact power-of-two factors that multiply to one (the dense object is unchanged and of order
        # one), but every partial product from the left ('u') resp. from the right ('U') is of order 1e-9 ... 1e-18
        fac = {1: [1.0], 2: [2.0 ** -40, 2.0 ** 40]}.get(L, [2.0 ** -30, 2.0 ** -30] + [1.0] * (L - 3) + [2.0 ** 60])
        if code == 'U':
            fac = fac[::-1]
        return [a * f for a, f in zip(A, fac)]
    if code == 'f':
        # complex entries, column-major storage
        return [np.asfortranarray(a) for a in A]
    if code == 'v':
        # complex entries, every tensor a strided (non-contiguous) view into a larger buffer
        out = []
        for a in A:
            big = np.zeros(a.shape[:-1] + (2 * a.shape[-1],), dtype=a.dtype)
            big[..., ::2] = a
            out.append(big[..., ::2])
        return out
    real_site = {'r': [True] * L, 'c': [False] * L,
                 'm': [i in (0, L - 1) for i in range(L)],
                 'w': [i != 0 for i in range(L)]}[code]
    return [np.ascontiguousarray(a.real) if r else a for a, r in zip(A, real_site)]


def mk_mps(ctx, k, qd, qD, real):
    m = MPS(qd, qD, fill='postpone')
    m.A = _site_dtypes(palette.mps_tensors(ctx.rng(k), qd, qD, 'complex'), real) if real not in (True, 'r') else \
        palette.mps_tensors(ctx.rng(k), qd, qD, 'real')
    return m


def mk_mpo(ctx, k, qd, qD, real):
    m = MPO(qd, qD, fill='postpone')
    m.A = _site_dtypes(palette.mpo_tensors(ctx.rng(k), qd, qD, 'complex'), real) if real not in (True, 'r') else \
        palette.mpo_tensors(ctx.rng(k), qd, qD, 'real')
    return m


def vec(m):
    return dense.mps_to_vector(m.A)


def mat(m):
    return dense.mpo_to_matrix(m.A)


def _pairs(structs):
    """Ordered pairs of structures with equal totals."""
    by = {}
    for t, qD in structs:
        by.setdefault(t, []).append(qD)
    for t, lst in sorted(by.items()):
        for a, b in itertools.product(lst, repeat=2):
            yield a, b


def _mps_pair_cases(Ls, qds, Ds, dts=DTYPES):
    for L in Ls:
        for qd in qds:
            for a, b in _pairs(palette.mps_structs(L, qd, Ds)):
                for dt in dts:
                    yield ['mps_pair', qd, a, b, dt]


def _mpo_pair_cases(Ls, qds, Ds, dts=DTYPES):
    for L in Ls:
        for qd in qds:
            for a, b in _pairs(palette.mpo_structs(L, qd, Ds)):
                for dt in dts:
                    yield ['mpo_pair', qd, a, b, dt]


def _apply_cases(Ls, qds, Ds, dts=DTYPES):
    for L in Ls:
        for qd in qds:
            ops = palette.mpo_structs(L, qd, Ds)
            pss = palette.mps_structs(L, qd, Ds)
            for (_, a), (_, b) in itertools.product(ops, pss):
                for dt in dts:
                    yield ['apply', qd, a, b, dt]


def _chain_cases(Ls, qds):
    # ((A+B)@C) psi and (psi+phi)-phi with all profiles of dimension 1..2, neutral operators
    for L in Ls:
        for qd in qds:
            ops = [q for t, q in palette.mpo_structs(L, qd, [1, 2], totals=[0])]
            pss = palette.mps_structs(L, qd, [1, 2])
            for a in ops[:6]:
                for b in ops[-3:]:
                    for (_, p) in pss[::3]:
                        yield ['chain', qd, a, b, p]


def run_case(case, ctx):
    kind = case[0]
    if kind == 'mps_pair':
        _, qd, qa, qb, dt = case
        a = mk_mps(ctx, 0, qd, qa, {'r': True, 'c': False}.get(dt[0], dt[0]))
        b = mk_mps(ctx, 1, qd, qb, {'r': True, 'c': False}.get(dt[1], dt[1]))
        va, vb = vec(a), vec(b)
        ctx.nontrivial = bool(np.any(va) and np.any(vb)) and max(map(len, qa + qb)) >= 2
        ctx.cls(f'mps_pair:L={len(qa)-1}')
        s = a + b
        ctx.calls += 1
        ctx.close(vec(s), va + vb, 'mps_sum_dense')
        d = a - b
        ctx.calls += 1
        ctx.close(vec(d), va - vb, 'mps_difference_dense')
        ctx.obs(vec(s), vec(d))
        # the same object as both operands
        ctx.close(vec(a + a), 2 * va, 'mps_sum_with_itself_dense')
        ctx.close(vec(a - a), 0 * va, 'mps_difference_with_itself_dense')
        ctx.calls += 2
        # operands untouched is C19; result bond dims are sums (L>1) - not stated, not judged
    elif kind == 'mpo_pair':
        _, qd, qa, qb, dt = case
        a = mk_mpo(ctx, 0, qd, qa, {'r': True, 'c': False}.get(dt[0], dt[0]))
        b = mk_mpo(ctx, 1, qd, qb, {'r': True, 'c': False}.get(dt[1], dt[1]))
        ma, mb = mat(a), mat(b)
        ctx.nontrivial = bool(np.any(ma) and np.any(mb)) and max(map(len, qa + qb)) >= 2
        ctx.cls(f'mpo_pair:L={len(qa)-1}')
        s = a + b
        ctx.close(mat(s), ma + mb, 'mpo_sum_dense')
        d = a - b
        ctx.close(mat(d), ma - mb, 'mpo_difference_dense')
        p = a @ b
        ctx.close(mat(p), ma @ mb, 'mpo_composition_dense')
        ctx.calls += 3
        ctx.obs(mat(s), mat(p))
        ctx.close(mat(a @ a), ma @ ma, 'mpo_composition_with_itself_dense')
        ctx.close(mat(a - a), 0 * ma, 'mpo_difference_with_itself_dense')
        ctx.calls += 2
        for o, name in ((a, 'a'), (p, 'a@b')):
            ctx.close(o.as_matrix(sparse_format=True).toarray(), np.asarray(o.as_matrix()), f'dense_and_sparse_matrix_forms_equal[{name}]')
            ctx.close(np.asarray(o.as_matrix()), mat(o), f'as_matrix_dense[{name}]')
            ctx.calls += 2
    elif kind == 'apply':
        _, qd, qo, qp, dt = case
        o = mk_mpo(ctx, 0, qd, qo, {'r': True, 'c': False}.get(dt[0], dt[0]))
        p = mk_mps(ctx, 1, qd, qp, {'r': True, 'c': False}.get(dt[1], dt[1]))
        mo, vp = mat(o), vec(p)
        ctx.nontrivial = bool(np.any(mo) and np.any(vp)) and max(map(len, qo + qp)) >= 2
        ctx.cls(f'apply:L={len(qo)-1}')
        r = apply_operator(o, p)
        ctx.calls += 1
        ctx.close(vec(r), mo @ vp, 'operator_application_dense')
        ctx.close(np.asarray(p.as_vector()), vp, 'as_vector_dense')
        ctx.obs(vec(r))
    elif kind == 'chain':
        _, qd, qa, qb, qp = case
        A = mk_mpo(ctx, 0, qd, qa, False)
        B = mk_mpo(ctx, 1, qd, qa, True)
        C = mk_mpo(ctx, 2, qd, qb, False)
        psi = mk_mps(ctx, 3, qd, qp, False)
        phi = mk_mps(ctx, 4, qd, qp, True)
        ctx.cls('chain')
        ctx.nontrivial = True
        r = apply_operator((A + B) @ C, psi)
        ctx.close(vec(r), (mat(A) + mat(B)) @ mat(C) @ vec(psi), 'chained_operator_expression_dense')
        r2 = (psi + phi) - phi
        ctx.close(vec(r2), vec(psi), 'sum_then_difference_dense')
        ctx.calls += 5
    elif kind == 'identity':
        _, qd, L, scale, dtype = case
        I = MPO.identity(qd, L, scale=scale, dtype={'float': float, 'complex': complex}[dtype])
        ctx.calls += 1
        ctx.cls('identity')
        ctx.nontrivial = L >= 2
        d = len(qd)
        ctx.check(I.nsites == L, 'identity_length', I.nsites)
        M = mat(I)
        if scale == 1:
            ctx.close(M, np.identity(d ** L), 'identity_mpo_dense')
        else:
            # the meaning of `scale` for L > 1 is not documented (per site or overall): only require a non-zero multiple of the identity
            c = M[0, 0]
            ctx.check(c != 0, 'scaled_identity_nonzero')
            ctx.close(M, c * np.identity(d ** L), 'scaled_identity_is_multiple_of_identity')
            ctx.cls('scale_observed_per_site' if abs(c - scale ** L) < 1e-12 else 'scale_observed_other')
        ctx.close(I.as_matrix(sparse_format=True).toarray(), mat(I), 'identity_sparse_form')
    elif kind == 'from_vector':
        _, d, n, vk = case
        rng = ctx.rng(0)
        if vk == 'complex':
            v = palette.generic(rng, d ** n, 'complex')
        elif vk == 'real':
            v = palette.generic(rng, d ** n, 'real')
        elif vk == 'product':
            v = np.ones(1)
            for _ in range(n):
                v = np.kron(v, palette.generic(rng, d, 'complex'))
        elif vk == 'unit':
            v = np.zeros(d ** n)
            v[(d ** n) // 2] = 1.0
        elif vk == 'zero':
            v = np.zeros(d ** n)
        else:
            raise ValueError(vk)
        v0 = v.copy()
        m = MPS.from_vector(d, n, v, 0)
        ctx.calls += 1
        ctx.cls('from_vector:' + vk)
        ctx.nontrivial = n >= 2 and d >= 2
        ctx.check(m.nsites == n, 'from_vector_length', m.nsites)
        ctx.close(vec(m), v0, 'from_vector_zero_tolerance_reproduces_vector')
        ctx.close(np.asarray(m.as_vector()), v0, 'from_vector_as_vector')
    elif kind == 'split_merge':
        _, qd0, qd1, qD0, qD2, vk = case
        qd0, qd1, qD0, qD2 = (np.asarray(x, dtype=np.int64) for x in (qd0, qd1, qD0, qD2))
        d0, d1, D0, D2 = len(qd0), len(qd1), len(qD0), len(qD2)
        q0 = (qd0[:, None] + qD0[None, :]).reshape(-1)
        q1 = (-qd1[:, None] + qD2[None, :]).reshape(-1)
        M = palette.block_matrix(ctx.rng(0), q0, q1, vk)
        A = M.reshape(d0, D0, d1, D2).transpose(0, 2, 1, 3).reshape(d0 * d1, D0, D2).copy()
        ctx.cls('split_merge')
        ctx.nontrivial = bool(np.any(A))
        for distr in ('left', 'right', 'sqrt'):
            A0, A1, qb = split_mps_tensor(A.copy(), qd0, qd1, [qD0, qD2], distr, 0)
            Am = merge_mps_tensor_pair(A0, A1)
            ctx.calls += 2
            ctx.close(Am, A, f'merge_undoes_zero_tolerance_split[{distr}]')
            ctx.close(Am, np.einsum('alk,bkr->ablr', A0, A1).reshape(A.shape), f'merge_is_bond_contraction[{distr}]')
    else:
        raise ValueError(kind)


def _identity_cases(tier):
    for d in (1, 2, 3):
        for qd in itertools.product(palette.A3, repeat=d):
            for L in (1, 2, 3, 4) if d < 3 else (1, 2, 3):
                for scale in (1, -2.5):
                    for dtype in ('float', 'complex'):
                        yield ['identity', list(qd), L, scale, dtype]


def _from_vector_cases(tier):
    for d in (1, 2, 3):
        for n in (1, 2, 3, 4):
            for vk in ('complex', 'real', 'product', 'unit', 'zero'):
                yield ['from_vector', d, n, vk]


def _split_cases(tier):
    alph = palette.A2 if tier == 'quick' else palette.A3
    for d0, d1, D0, D2 in itertools.product((1, 2), repeat=4):
        for qd0 in palette.vectors(d0, alph):
            for qd1 in palette.vectors(d1, alph):
                for qD0 in palette.vectors(D0, alph):
                    for qD2 in palette.vectors(D2, alph):
                        for vk in ('complex', 'rankdef'):
                            yield ['split_merge', list(qd0), list(qd1), list(qD0), list(qD2), vk]


def _history_probe(w, ctx):
    # dense conversions are evaluated on the LIVE objects of the world (they are documented as pure), so that anything a conversion
    # leaves behind on the object is carried into the following operations of the history
    for name, obj in (('H', w.H), ('K', w.K)):
        ref = mat(obj)
        ctx.close(np.asarray(obj.as_matrix()), ref, f'history:{name}.as_matrix_dense')
        ctx.close(obj.as_matrix(sparse_format=True).toarray(), ref, f'history:{name}.dense_and_sparse_matrix_forms_equal')
        ctx.calls += 2
    for name, obj in (('psi', w.psi), ('phi', w.phi)):
        ctx.close(np.asarray(obj.as_vector()), vec(obj), f'history:{name}.as_vector_dense')
        ctx.calls += 1
    if np.array_equal(w.H.qd, w.psi.qd) and max(w.psi.bond_dims) * max(w.H.bond_dims) <= 64:
        r = apply_operator(w.H, w.psi)
        ctx.close(vec(r), mat(w.H) @ vec(w.psi), 'history:operator_application_dense')
        ctx.calls += 1


def replay_case(space, case, seed):
    if space.name == 'history_states':
        from props import hist_probe
        return hist_probe.replay(space, case, seed)
    return space.run_one(case, seed).fails


def sig(case):
    return case[0]


def spaces(tier, seed):
    if tier == 'quick':
        Ls, Ds = [1, 2, 3], [1, 2]
        Lmpo = [1, 2]
        qds_mpo = [[0, 1], [0, 0]]
    else:
        Ls, Ds = [1, 2, 3], [1, 2, 3]
        Lmpo = [1, 2]
        qds_mpo = [[0, 1], [1, -1], [0, 0]]
    from props import hist_probe
    hist = hist_probe.probe_space('history_states', ['xxz3', 'ising3', 'fh2', 'linf3'], 2 if tier == 'quick' else 3, _history_probe)
    return [
        hist,
        Space('mps_pairs', core.chunked(_mps_pair_cases(Ls, QDS, Ds), 400), run_case=run_case, sig=sig,
              bounds={'L': Ls, 'qd': QDS, 'D': Ds, 'dtypes': DTYPES, 'ops': ['+', '-']}),
        Space('mps_pairs_site_dtypes', core.chunked(itertools.chain(_mps_pair_cases([3], QDS[:2] if tier == 'quick' else QDS, [1, 2],
                                                                                   ['mr', 'wm', 'fv', 'uU'] if tier == 'quick' else DTYPES_SITE),
                                                                   _mps_pair_cases([] if tier == 'quick' else [4], QDS[:1], [1, 2], ['mr', 'wm'])), 400), run_case=run_case, sig=sig,
              bounds={'L': '3 (quick) / 3,4 (thorough)', 'D': [1, 2], 'dtypes': "per-site: m = real boundary tensors, complex interior; w = complex first tensor only"}),
        Space('mpo_pairs', core.chunked(_mpo_pair_cases(Lmpo, qds_mpo, [1, 2]), 200), run_case=run_case, sig=sig,
              bounds={'L': Lmpo, 'qd': qds_mpo, 'D': [1, 2], 'dtypes': DTYPES, 'ops': ['+', '-', '@', 'as_matrix dense/sparse']}),
        Space('apply', core.chunked(_apply_cases(Lmpo, qds_mpo, [1, 2]), 300), run_case=run_case, sig=sig,
              bounds={'L': Lmpo, 'qd': qds_mpo, 'D': [1, 2], 'dtypes': DTYPES}),
        Space('mpo_pairs_L3', core.chunked(itertools.chain(_mpo_pair_cases([3], [[0, 1]], [1, 2], ['rc']), _mpo_pair_cases([3], [[0, 1]], [2], ['mr', 'vf', 'uU'])) if tier == 'quick'
                                           else _mpo_pair_cases([3], qds_mpo, [1, 2], DTYPES + DTYPES_SITE), 200),
              run_case=run_case, sig=sig, bounds={'L': [3], 'D': [1, 2], 'dtypes': 'quick: rc / cr on D in {1,2}, per-site and layout codes mr, vf / fv on D = 2; thorough: all uniform + mr, rm, mm, wm, fv, vf on D in {1,2}'}),
        Space('apply_L3', core.chunked(itertools.chain(_apply_cases([3], [[0, 1]], [1, 2], ['cr']), _apply_cases([3], [[0, 1]], [2], ['mr', 'fv', 'Uu'])) if tier == 'quick'
                                       else _apply_cases([3], qds_mpo, [1, 2], DTYPES + DTYPES_SITE), 300),
              run_case=run_case, sig=sig, bounds={'L': [3], 'D': [1, 2], 'dtypes': 'quick: rc / cr on D in {1,2}, per-site and layout codes mr, vf / fv on D = 2; thorough: all uniform + mr, rm, mm, wm, fv, vf on D in {1,2}'}),
        Space('chained', core.chunked(_chain_cases([1, 2, 3], [[0, 1], [0, 0]]), 100), run_case=run_case, sig=sig,
              bounds={'L': [1, 2, 3], 'expressions': ['((A+B)@C) psi', '(psi+phi)-phi']}),
        Space('identity', core.chunked(_identity_cases(tier), 100), run_case=run_case, sig=sig,
              bounds={'d': [1, 2, 3], 'qd': 'A3^d', 'L': [1, 2, 3, 4], 'scale': [1, -2.5], 'dtype': ['float', 'complex']}),
        Space('from_vector', core.chunked(_from_vector_cases(tier), 8), run_case=run_case, sig=sig,
              bounds={'d': [1, 2, 3], 'n': [1, 2, 3, 4], 'vector_kinds': ['complex', 'real', 'product', 'unit', 'zero'], 'tol': 0}),
        Space('split_merge', core.chunked(_split_cases(tier), 300), run_case=run_case, sig=sig,
              bounds={'d0,d1,D0,D2': [1, 2], 'charges': 'A2 quick / A3 thorough', 'distr': ['left', 'right', 'sqrt']}),
    ]
