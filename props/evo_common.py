"""Shared pieces for C08 / C09 / C10: Hermitian operators, sector states, dense helpers."""

import numpy as np

from mc import palette, dense

import pytenet as ptn
from pytenet.mps import MPS
from pytenet.mpo import MPO

G1, G2, G3 = 0.7310585786300049, 1.618033988749895, 0.4142135623730951

# name -> (constructor(L) -> MPO, qd as used for sector enumeration)
MODELS = {
    'ising': lambda L: ptn.ising_mpo(L, 1.0, G3, G1),
    'xxz': lambda L: ptn.heisenberg_xxz_mpo(L, 1.0, G1, -G3),
    'xxz_neg': lambda L: ptn.heisenberg_xxz_mpo(L, -G2, 1.0, 0.25),
    'xxz_spin1': lambda L: ptn.heisenberg_xxz_spin1_mpo(L, G1, 1.0, G3),
    'bose3': lambda L: ptn.bose_hubbard_mpo(3, L, 1.0, G2, G3),
    'fermi_hubbard': lambda L: ptn.fermi_hubbard_mpo(L, 1.0, G2, G3),
}


def random_hermitian_mpo(rng, qd, L, kind):
    """Hermitian MPO with charged bonds, K + K^dagger built tensor-wise by the oracle (not by pytenet arithmetic)."""
    from props.c04 import hermitian_mpo_from

    class _C:
        def __init__(self, r):
            self._r = r

        def rng(self, k):
            return self._r
    diffs = sorted({a - b for a in qd for b in qd})
    # bond charges of K: every difference charge once on interior bonds
    qo = [[0]] + [list(diffs) for _ in range(L - 1)] + [[0]]
    W, qW = hermitian_mpo_from(_C(rng), qd, qo)
    op = MPO(qd, qW, fill='postpone')
    op.A = W
    return op


def build_hamiltonian(name, L, rng):
    if name in MODELS:
        return MODELS[name](L)
    if name == 'random_u1':
        return random_hermitian_mpo(rng, [0, 1], L, 'u1')
    if name == 'random_zero':
        return random_hermitian_mpo(rng, [0, 0], L, 'zero')
    raise ValueError(name)


ALL_H = list(MODELS) + ['random_u1', 'random_zero']


def local_dim(name):
    return {'ising': 2, 'xxz': 2, 'xxz_neg': 2, 'xxz_spin1': 3, 'bose3': 3, 'fermi_hubbard': 4, 'random_u1': 2, 'random_zero': 2}[name]


def totals_for(qd, L):
    t = {0}
    for _ in range(L):
        t = {q + s for q in t for s in qd}
    return sorted(t)


def make_state(rng, qd, qD, kind='complex'):
    psi = MPS(qd, qD, fill='postpone')
    psi.A = palette.mps_tensors(rng, qd, qD, kind)
    return psi


def copy_state(psi):
    c = MPS(psi.qd, psi.qD, fill='postpone')
    c.A = [a.copy() for a in psi.A]
    return c


def sector_indices(qd, L, total):
    return np.where(dense.site_charges(qd, L) == total)[0]


def mpo_bytes(H):
    return tuple(a.tobytes() for a in H.A) + tuple(np.asarray(q).tobytes() for q in H.qD) + (np.asarray(H.qd).tobytes(),)
