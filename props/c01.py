"""
C01 - orthonormalization never changes the represented state or operator.
"""

import itertools

import numpy as np

from mc import core, palette, dense
from mc.core import Space

from pytenet.mps import MPS
from pytenet.mpo import MPO

ID = 'C01'
LEVEL = 'model_checking'
RULE = ('class {MPS,MPO} x mode {left,right} x L x d x interior bond profile x every charge layout over {-1,0,1} (deviation-bounded '
        'for the largest shapes) x boundary charges x value kind {complex,real,int,ones,neg,rankdef,zero,fortran(column-major storage),tiny,large,shared(one array object at several sites),near_iso_left/right(isometries times 1+2^-18)}; non-trivial = non-zero state '
        'with some bond carrying >=2 distinct charges or a bond dimension that changes')
BUDGET = {'quick': 400, 'thorough': 3600}
KINDS = ['complex', 'real', 'int', 'ones', 'neg', 'rankdef', 'zero', 'fortran', 'tiny', 'large', 'shared', 'near_iso_left', 'near_iso_right']


def _cases(cls, Ls, ds, Ds, alph, max_dev_for):
    for L in Ls:
        for d in ds:
            for prof in palette.bond_profiles(L, Ds):
                size = d + sum(prof) + 2
                md = max_dev_for(L, d, prof)
                for qd, qD in palette.layouts(L, d, prof, alph, left_boundary=((0,), (1,)), max_dev=md):
                    for kind in KINDS:
                        for mode in ('left', 'right'):
                            yield [cls, mode, qd, qD, kind]


def _sector_cases(cls, Ls, qds, Ds, kinds, extra=(5,)):
    for L in Ls:
        for qd in qds:
            for prof in palette.bond_profiles(L, Ds):
                for qd_, qD in palette.sector_layouts(L, qd, prof, extra=extra):
                    for kind in kinds:
                        for mode in ('left', 'right'):
                            yield [cls, mode, list(qd_), qD, kind]


def run_case(case, ctx):
    cls, mode, qd, qD, kind = case
    if cls == 'MPS':
        obj = MPS(qd, qD, fill='postpone')
        obj.A = palette.mps_tensors(ctx.rng(0), qd, qD, kind)
    else:
        obj = MPO(qd, qD, fill='postpone')
        obj.A = palette.mpo_tensors(ctx.rng(0), qd, qD, kind)
    ctx.cls('kind:' + kind)
    judge_orthonormalize(ctx, obj, cls, mode)


def judge_orthonormalize(ctx, obj, cls, mode, prefix=''):
    """Run obj.orthonormalize(mode) on the real object and judge every clause of C01 against own dense contractions."""
    qD = [list(np.asarray(q).tolist()) for q in obj.qD]
    L = len(qD) - 1
    d = len(obj.qd)
    if cls == 'MPS':
        v0 = dense.mps_to_vector(obj.A)
        dloc = d
    else:
        v0 = dense.mpo_to_matrix(obj.A)
        dloc = d * d
    old_dims = [len(q) for q in qD]
    nrm0 = float(np.linalg.norm(v0))
    # all comparisons are relative to the size of the object: rounding level is set by the product of the tensor norms
    tscale = float(np.prod([np.linalg.norm(a) for a in obj.A]))
    eps = 1e-10 * nrm0 + 1e-12 * tscale
    nrm = obj.orthonormalize(mode=mode)
    ctx.calls += 1
    ctx.cls('zero_state' if nrm0 == 0 else 'nonzero_state')
    A = obj.A
    new_dims = [A[0].shape[-2]] + [a.shape[-1] for a in A]
    multi = any(len(set(q)) >= 2 for q in qD[1:-1])
    ctx.nontrivial = nrm0 > 0 and (multi or new_dims != old_dims)
    if new_dims != old_dims:
        ctx.cls('bond_reduced')
    # returned factor
    ok = ctx.check(np.isrealobj(nrm) and np.ndim(nrm) == 0, prefix + 'factor_is_real_scalar', repr(nrm))
    if not ok:
        return
    nrm = float(nrm)
    ctx.check(nrm >= 0, prefix + 'factor_non_negative', nrm)
    ctx.check(abs(nrm - nrm0) <= eps, prefix + 'factor_equals_norm', f'{nrm} vs {nrm0}')
    # shapes chain up
    for i in range(L - 1):
        if A[i].shape[-1] != A[i + 1].shape[-2]:
            ctx.fail(prefix + 'bond_dimensions_chain', f'site {i}: {A[i].shape} {A[i+1].shape}')
            return
    v1 = dense.mps_to_vector(A) if cls == 'MPS' else dense.mpo_to_matrix(A)
    ctx.obs(v1, np.float64(nrm))
    if np.all(np.isfinite(v1)):
        err = float(np.max(np.abs(nrm * v1 - v0)))
        ctx.check(err <= eps, prefix + 'factor_times_new_equals_original', f'err={err:.3e} norm={nrm0:.3e}')
    else:
        ctx.fail(prefix + 'factor_times_new_equals_original', 'non-finite value')
    if nrm0 > 1e-12 * tscale:
        ctx.check(abs(np.linalg.norm(v1) - 1) <= 1e-10, prefix + 'unit_norm_after', np.linalg.norm(v1))
    # isometries
    for i, a in enumerate(A):
        if mode == 'left':
            e = dense.is_isometry_left(a)
        else:
            e = dense.is_isometry_right(a, a.ndim - 2)
        ctx.check(e <= 1e-10, prefix + 'site_tensor_isometric', f'site {i} deviation {e:.2e}')
    # bond bounds
    if mode == 'left':
        for i in range(L):
            lim = min(dloc * new_dims[i], old_dims[i + 1])
            ctx.check(new_dims[i + 1] <= lim, prefix + 'bond_not_larger_than_neighbours_allow', f'bond {i+1}: {new_dims[i+1]} > {lim}')
    else:
        for i in reversed(range(L)):
            lim = min(dloc * new_dims[i + 1], old_dims[i])
            ctx.check(new_dims[i] <= lim, prefix + 'bond_not_larger_than_neighbours_allow', f'bond {i}: {new_dims[i]} > {lim}')
    ctx.check(new_dims[0] == 1 and new_dims[-1] == 1, prefix + 'outer_bonds_stay_one', new_dims)


def _history_probe(w, ctx):
    import copy
    for mode in ('left', 'right'):
        judge_orthonormalize(ctx, copy.deepcopy(w.psi), 'MPS', mode, prefix='history:')
        judge_orthonormalize(ctx, copy.deepcopy(w.H), 'MPO', mode, prefix='history:')


def replay_case(space, case, seed):
    if space.name == 'history_states':
        from props import hist_probe
        return hist_probe.replay(space, case, seed)
    return space.run_one(case, seed).fails


def sig(case):
    cls, mode, qd, qD, kind = case
    return f'{cls}:{mode}:L={len(qD)-1}:d={len(qd)}:{kind}'


def spaces(tier, seed):
    from props import hist_probe
    hist = hist_probe.probe_space('history_states', ['xxz3', 'ising3', 'fh2', 'bh3', 'linf3', 'mol4'], 2 if tier == 'quick' else 3, _history_probe)
    if tier == 'quick':
        def md_mps(L, d, prof):
            return None if (d + sum(prof)) <= 5 else 3
        def md_mpo(L, d, prof):
            return None if (d + sum(prof)) <= 4 else 2
        SK = ['complex', 'int', 'neg', 'rankdef', 'fortran', 'tiny', 'shared', 'near_iso_left', 'near_iso_right']
        return [
            Space('mps_sectors', core.chunked(_sector_cases('MPS', [2, 3], [[0, 1], [1, -1], [0, 1, 2]], [1, 2, 3], SK), 400),
                  run_case=run_case, sig=sig,
                  bounds={'L': [2, 3], 'qd': [[0, 1], [1, -1], [0, 1, 2]], 'D': [1, 2, 3], 'kinds': SK,
                          'charges': 'every tuple over the reachable charges of each bond plus one unreachable charge, every total'}),
            Space('mps_sectors_L4', core.chunked(_sector_cases('MPS', [4], [[0, 1]], [1, 2], SK), 400),
                  run_case=run_case, sig=sig,
                  bounds={'L': [4], 'qd': [[0, 1]], 'D': [1, 2], 'kinds': SK}),
            Space('mpo_sectors', core.chunked(_sector_cases('MPO', [2, 3], [[0, 1], [1, -1]], [1, 2], SK), 400),
                  run_case=run_case, sig=sig,
                  bounds={'L': [2, 3], 'qd': [[0, 1], [1, -1]], 'D': [1, 2], 'kinds': SK}),
            Space('mps', core.chunked(_cases('MPS', [1, 2, 3], [1, 2], [1, 2], palette.A3, md_mps), 600), run_case=run_case, sig=sig,
                  bounds={'L': [1, 2, 3], 'd': [1, 2], 'D': [1, 2], 'charges': 'A3, full product when d+sum(D)<=5 else <=3 non-zero charges',
                          'kinds': KINDS}),
            Space('mpo', core.chunked(_cases('MPO', [1, 2, 3], [1, 2], [1, 2], palette.A3, md_mpo), 600), run_case=run_case, sig=sig,
                  bounds={'L': [1, 2, 3], 'd': [1, 2], 'D': [1, 2], 'charges': 'A3, full product when d+sum(D)<=4 else <=2 non-zero charges',
                          'kinds': KINDS}),
            hist,
        ]
    def md_t(L, d, prof):
        return None if (d + sum(prof)) <= 7 else 4
    def md_t2(L, d, prof):
        return None if (d + sum(prof)) <= 6 else 3
    SK = ['complex', 'real', 'int', 'neg', 'rankdef', 'tiny', 'shared', 'near_iso_left', 'near_iso_right']
    return [
        Space('mps_sectors', core.chunked(_sector_cases('MPS', [2, 3, 4], [[0, 1], [1, -1], [0, 1, 2]], [1, 2, 3], SK, extra=()), 400),
              run_case=run_case, sig=sig,
              bounds={'L': [2, 3, 4], 'qd': [[0, 1], [1, -1], [0, 1, 2]], 'D': [1, 2, 3], 'kinds': SK}),
        Space('mps_sectors_extra', core.chunked(_sector_cases('MPS', [2, 3], [[0, 1], [1, -1], [0, 1, 2]], [1, 2, 3], SK), 400),
              run_case=run_case, sig=sig,
              bounds={'L': [2, 3], 'qd': [[0, 1], [1, -1], [0, 1, 2]], 'D': [1, 2, 3], 'kinds': SK, 'extra': 'one unreachable charge'}),
        Space('mpo_sectors', core.chunked(_sector_cases('MPO', [2, 3], [[0, 1], [1, -1]], [1, 2, 3], SK), 400),
              run_case=run_case, sig=sig,
              bounds={'L': [2, 3], 'qd': [[0, 1], [1, -1]], 'D': [1, 2, 3], 'kinds': SK}),
        Space('mps', core.chunked(_cases('MPS', [1, 2, 3, 4], [1, 2, 3], [1, 2, 3], palette.A3, md_t), 600), run_case=run_case, sig=sig,
              bounds={'L': [1, 2, 3, 4], 'd': [1, 2, 3], 'D': [1, 2, 3], 'charges': 'A3, full when d+sum(D)<=7 else <=4 non-zero', 'kinds': KINDS}),
        Space('mpo', core.chunked(_cases('MPO', [1, 2, 3], [1, 2], [1, 2, 3], palette.A3, md_t2), 600), run_case=run_case, sig=sig,
              bounds={'L': [1, 2, 3], 'd': [1, 2], 'D': [1, 2, 3], 'charges': 'A3, full when d+sum(D)<=6 else <=3 non-zero', 'kinds': KINDS}),
        hist,
    ]
