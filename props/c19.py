"""
C19 - operands are never modified and results share no state with them.

Enumerated: every public operation x operand kind (L in {1,2,3}; zero / U(1) charges; real / complex) x every follow-up
mutation of a returned MPS / MPO / operator graph; two-operation chains.  Oracle: byte snapshots of every operand before and
after the call and after each mutation of the result; np.shares_memory / identity of mutable containers between result and operands.
"""

import copy
import itertools
import warnings

import numpy as np

from mc import core, palette, dense, symbolic as sym
from mc.core import Space

import pytenet as ptn
from pytenet.mps import MPS, merge_mps_tensor_pair, split_mps_tensor
from pytenet.mpo import MPO, merge_mpo_tensor_pair
from pytenet.opgraph import OpGraph, OpGraphNode, OpGraphEdge
from pytenet.opchain import OpChain
from pytenet.optree import OpTree, OpTreeNode, OpTreeEdge
from pytenet.autop import AutOp, AutOpNode, AutOpEdge
from pytenet import operation as opn
from pytenet import bond_ops, krylov

ID = 'C19'
LEVEL = 'model_checking'
RULE = ('every public operation of the table x operand kind (L, charge kind, dtype) x every follow-up mutation of a returned MPS/MPO/graph '
        '(zero_qnumbers, orthonormalize l/r, compress, in-place edit of every tensor and every charge array; graph: rename, simplify, flip); '
        'all ordered pairs of binary operations as two-step chains; non-trivial = operation with at least one array-carrying operand')
BUDGET = {'quick': 400, 'thorough': 2400}


# ---- generic snapshots ----------------------------------------------------------------------------

def snap(o, depth=0):
    if depth > 12:
        return 'deep'
    if isinstance(o, np.ndarray):
        return ('nd', str(o.dtype), o.shape, o.tobytes())
    if isinstance(o, (list, tuple)):
        return (type(o).__name__,) + tuple(snap(x, depth + 1) for x in o)
    if isinstance(o, dict):
        return ('dict',) + tuple((repr(k), snap(v, depth + 1)) for k, v in sorted(o.items(), key=lambda kv: repr(kv[0])))
    if isinstance(o, (int, float, complex, str, bool, type(None), np.generic)):
        return repr(o)
    if callable(o) and not hasattr(o, '__dict__'):
        return 'callable'
    if hasattr(o, '__dict__'):
        return (type(o).__name__,) + tuple((k, snap(v, depth + 1)) for k, v in sorted(vars(o).items()))
    if hasattr(o, 'toarray'):
        return snap(o.toarray(), depth + 1)
    return repr(o)


def reach(o, arrays, containers, depth=0):
    """Collect ndarrays and mutable containers/objects reachable from o."""
    if depth > 12:
        return
    if isinstance(o, np.ndarray):
        arrays.append(o)
    elif isinstance(o, (list, dict)) or (hasattr(o, '__dict__') and not callable(o)):
        if id(o) in containers:
            return
        containers[id(o)] = o
        it = o if isinstance(o, list) else (o.values() if isinstance(o, dict) else vars(o).values())
        for x in it:
            reach(x, arrays, containers, depth + 1)
    elif isinstance(o, tuple):
        for x in o:
            reach(x, arrays, containers, depth + 1)


def shares(result, operands):
    ra, rc = [], {}
    reach(result, ra, rc)
    oa, oc = [], {}
    reach(operands, oa, oc)
    out = []
    for a in ra:
        for b in oa:
            if a.size and b.size and np.shares_memory(a, b):
                out.append(f'array{a.shape} shares memory with operand array{b.shape}')
    common = set(rc) & set(oc)
    for i in common:
        out.append(f'mutable {type(rc[i]).__name__} object is the same object in result and operand')
    return out


# ---- operand builders -----------------------------------------------------------------------------

def layout(L, ck, which=0):
    """(qd, qD_mps_a, qD_mps_b, qD_mpo) for a lattice length and charge kind."""
    if ck == 'zero':
        qd = [0, 0]
        qa = [[0]] + [[0, 0]] * (L - 1) + [[0]]
        qb = [[0]] + [[0, 0, 0]] * (L - 1) + [[0]]
        qo = [[0]] + [[0, 0]] * (L - 1) + [[0]]
    else:
        qd = [0, 1]
        tot = (L + 1) // 2
        al = palette.reachable_alphabets(L, qd, 0, tot)
        qa = [[0]] + [list(al[i]) for i in range(1, L)] + [[tot]]
        qb = [[0]] + [list(al[i])[::-1] + [al[i][0]] for i in range(1, L)] + [[tot]]
        qo = [[0]] + [[0, 1, -1]] * (L - 1) + [[0]]
    return qd, qa, qb, qo


def mk(ctx, L, ck, real):
    qd, qa, qb, qo = layout(L, ck)
    k = 'real' if real else 'complex'
    psi = MPS(qd, qa, fill='postpone'); psi.A = palette.mps_tensors(ctx.rng(1), qd, qa, k)
    phi = MPS(qd, qb, fill='postpone'); phi.A = palette.mps_tensors(ctx.rng(2), qd, qb, 'complex')
    H = MPO(qd, qo, fill='postpone'); H.A = palette.mpo_tensors(ctx.rng(3), qd, qo, k)
    K = MPO(qd, qo, fill='postpone'); K.A = palette.mpo_tensors(ctx.rng(4), qd, qo, 'complex')
    return {'psi': psi, 'phi': phi, 'H': H, 'K': K}


def herm(ctx, L, ck):
    """A Hermitian MPO of the library with matching physical charges."""
    if ck == 'zero':
        return ptn.ising_mpo(L, 1.0, 0.3, 0.7)
    m = ptn.bose_hubbard_mpo(2, L, 0.9, 1.3, 0.2)   # qd = [0, 1]
    return m


def small_graph():
    return OpGraph.from_opchains([OpChain([1, 2], [0, 0, 0], 1.0, 0), OpChain([2], [0, 0], 0.5, 1), OpChain([1, 1], [0, 0, 0], 2.0, 0)], 2, 0)


def small_tree():
    leaf = OpTreeNode([], 0)
    n1 = OpTreeNode([OpTreeEdge(1, 1.0, OpTreeNode([], 0)), OpTreeEdge(2, 2.0, OpTreeNode([], 0))], 0)
    return OpTree(OpTreeNode([OpTreeEdge(1, 0.5, n1), OpTreeEdge(2, 1.0, leaf)], 0), 0)


def small_automaton():
    nodes = [AutOpNode(0, [], [], 0), AutOpNode(1, [], [], 0), AutOpNode(2, [], [], 0)]
    a = AutOp(nodes, [], [0, 1])
    a.add_connect_edge(AutOpEdge(0, [0, 0], [(0, 1.0)]))
    a.add_connect_edge(AutOpEdge(1, [1, 1], [(0, 1.0)]))
    a.add_connect_edge(AutOpEdge(2, [0, 2], [(1, 0.7)]))
    a.add_connect_edge(AutOpEdge(3, [2, 1], [(1, 1.0)]))
    a.add_connect_edge(AutOpEdge(4, [0, 1], [(2, -0.4)]))
    return a


OPMAP = {k: v.copy() for k, v in sym.FAITHFUL.items()}


# ---- operation table --------------------------------------------------------------------------------
# name -> (builder(ctx, L, ck, real) -> operands dict, call(**operands) -> result, names of operands documented as overwritten)

def _env(o):
    psi, H = o['psi'], o['H']
    BR = opn.compute_right_operator_blocks(psi, H)
    BL = np.array([[[1]]], dtype=complex)
    return {'BL': BL, 'BR': BR[0], 'W': H.A[0], 'A': psi.A[0]}


def _two(o, *names):
    return {n: o[n] for n in names}


OPS = {}


def op(name, inplace=()):
    def deco(pair):
        OPS[name] = (pair[0], pair[1], tuple(inplace))
        return pair
    return deco


op('mps_add')((lambda c, L, ck, r: _two(mk(c, L, ck, r), 'psi', 'phi'), lambda psi, phi: psi + phi))
op('mps_sub')((lambda c, L, ck, r: _two(mk(c, L, ck, r), 'psi', 'phi'), lambda psi, phi: psi - phi))
op('mps_add_self')((lambda c, L, ck, r: _two(mk(c, L, ck, r), 'psi'), lambda psi: psi + psi))
op('mpo_add')((lambda c, L, ck, r: _two(mk(c, L, ck, r), 'H', 'K'), lambda H, K: H + K))
op('mpo_sub')((lambda c, L, ck, r: _two(mk(c, L, ck, r), 'H', 'K'), lambda H, K: H - K))
op('mpo_matmul')((lambda c, L, ck, r: _two(mk(c, L, ck, r), 'H', 'K'), lambda H, K: H @ K))
op('mpo_matmul_self')((lambda c, L, ck, r: _two(mk(c, L, ck, r), 'H'), lambda H: H @ H))
op('apply_operator')((lambda c, L, ck, r: _two(mk(c, L, ck, r), 'H', 'psi'), lambda H, psi: ptn.apply_operator(H, psi)))
op('vdot')((lambda c, L, ck, r: _two(mk(c, L, ck, r), 'psi', 'phi'), lambda psi, phi: ptn.vdot(phi, psi)))
op('norm')((lambda c, L, ck, r: _two(mk(c, L, ck, r), 'psi'), lambda psi: ptn.norm(psi)))
op('operator_average')((lambda c, L, ck, r: _two(mk(c, L, ck, r), 'psi', 'H'), lambda psi, H: ptn.operator_average(psi, H)))
op('operator_inner_product')((lambda c, L, ck, r: _two(mk(c, L, ck, r), 'psi', 'phi', 'H'), lambda psi, phi, H: ptn.operator_inner_product(phi, H, psi)))
op('operator_density_average')((lambda c, L, ck, r: _two(mk(c, L, ck, r), 'H', 'K'), lambda H, K: ptn.operator_density_average(H, K)))
op('as_vector')((lambda c, L, ck, r: _two(mk(c, L, ck, r), 'psi'), lambda psi: psi.as_vector()))
op('as_matrix')((lambda c, L, ck, r: _two(mk(c, L, ck, r), 'H'), lambda H: H.as_matrix()))
op('as_matrix_sparse')((lambda c, L, ck, r: _two(mk(c, L, ck, r), 'H'), lambda H: H.as_matrix(sparse_format=True)))
op('bond_dims')((lambda c, L, ck, r: _two(mk(c, L, ck, r), 'psi', 'H'), lambda psi, H: (psi.bond_dims, H.bond_dims, psi.nsites)))
op('from_vector')((lambda c, L, ck, r: {'v': palette.generic(c.rng(0), 2 ** L, 'real' if r else 'complex')},
                   lambda v: MPS.from_vector(2, int(np.log2(len(v))), v, 0.01)))
op('MPS_ctor')((lambda c, L, ck, r: {'qd': np.array(layout(L, ck)[0]), 'qD': [np.array(q) for q in layout(L, ck)[1]]},
                lambda qd, qD: MPS(qd, qD, fill='random', rng=np.random.default_rng(5))))
op('MPO_ctor')((lambda c, L, ck, r: {'qd': np.array(layout(L, ck)[0]), 'qD': [np.array(q) for q in layout(L, ck)[3]]},
                lambda qd, qD: MPO(qd, qD, fill='random', rng=np.random.default_rng(5))))
op('MPO_identity')((lambda c, L, ck, r: {'qd': np.array(layout(L, ck)[0])}, lambda qd: MPO.identity(qd, 2, scale=2.0)))
op('MPO_from_opgraph')((lambda c, L, ck, r: {'qd': np.array([0, 0]), 'graph': small_graph(), 'opmap': {k: v.copy() for k, v in OPMAP.items()}},
                        lambda qd, graph, opmap: MPO.from_opgraph(qd, graph, opmap, compute_nid_map=True)))


def _merged_edge_graph():
    # a two-site graph whose first edge carries two operators, the one with the smaller id with coefficient exactly 1
    from props import c16
    return c16.build_graph({'widths': [1], 'charges': [[0]], 'edges': [[(0, 0, 'a-b')], [(0, 0, 'b'), (0, 0, '2a')]]})


for _ot in ('complex', 'float', 'int'):
    def _opmap_operands(c, L, ck, r, ot=_ot):
        conv = {'complex': lambda a: np.array(a, dtype=complex), 'float': lambda a: np.array(a, dtype=float),
                'int': lambda a: np.rint(np.asarray(a).real).astype(np.int64)}[ot]
        return {'qd': np.array([0, 0]), 'graph': _merged_edge_graph(), 'opmap': {k: conv(v) for k, v in OPMAP.items()}}
    op('MPO_from_opgraph:opmap_' + _ot)((_opmap_operands, lambda qd, graph, opmap: MPO.from_opgraph(qd, graph, opmap, compute_nid_map=True)))

op('qr')((lambda c, L, ck, r: {'A': palette.block_matrix(c.rng(0), np.array([0, 1, 0]), np.array([1, 0] if ck == 'u1' else [5, 7]), 'complex'),
                               'q0': np.array([0, 1, 0]), 'q1': np.array([1, 0] if ck == 'u1' else [5, 7])},
          lambda A, q0, q1: bond_ops.qr(A, q0, q1)))
op('split_matrix_svd')((lambda c, L, ck, r: {'A': palette.block_matrix(c.rng(0), np.array([0, 1, 0]), np.array([1, 0] if ck == 'u1' else [5, 7]), 'complex'),
                                             'q0': np.array([0, 1, 0]), 'q1': np.array([1, 0] if ck == 'u1' else [5, 7])},
                        lambda A, q0, q1: bond_ops.split_matrix_svd(A, q0, q1, 0.1)))


def _mat_operands(lay, chg):
    # memory layout x sortedness of the charges: a sorted / constant charge vector makes the blocks views of the caller's matrix
    q0, q1 = {'sorted': ([0, 0, 1], [0, 1]), 'const': ([0, 0, 0], [0, 0]), 'column': ([0, 0, 1], [0]), 'row': ([0], [0, 0, 1])}[chg]

    def build(c, L, ck, r):
        a0, a1 = np.array(q0), np.array(q1)
        A = palette.block_matrix(c.rng(0), a0, a1, 'real' if r else 'complex')
        if r:
            A = A.real.copy()
        A = np.asfortranarray(A) if lay == 'F' else np.ascontiguousarray(A)
        return {'A': A, 'q0': a0, 'q1': a1}
    return build


for _lay in ('C', 'F'):
    for _chg in ('sorted', 'const', 'column', 'row'):
        op(f'qr:{_lay}:{_chg}')((_mat_operands(_lay, _chg), lambda A, q0, q1: bond_ops.qr(A, q0, q1)))
        op(f'split_matrix_svd:{_lay}:{_chg}')((_mat_operands(_lay, _chg), lambda A, q0, q1: bond_ops.split_matrix_svd(A, q0, q1, 0.1)))
        op(f'split_matrix_svd_tol0:{_lay}:{_chg}')((_mat_operands(_lay, _chg), lambda A, q0, q1: bond_ops.split_matrix_svd(A, q0, q1, 0.0)))

op('retained_bond_indices')((lambda c, L, ck, r: {'s': np.array([0.9, 0.1, 0.5, 0.3])}, lambda s: bond_ops.retained_bond_indices(s, 0.05)))
op('merge_mps_tensor_pair')((lambda c, L, ck, r: {'A0': mk(c, 2, ck, r)['psi'].A[0], 'A1': mk(c, 2, ck, r)['psi'].A[1]},
                             lambda A0, A1: merge_mps_tensor_pair(A0, A1)))
op('merge_mpo_tensor_pair')((lambda c, L, ck, r: {'A0': mk(c, 2, ck, r)['H'].A[0], 'A1': mk(c, 2, ck, r)['H'].A[1]},
                             lambda A0, A1: merge_mpo_tensor_pair(A0, A1)))


def _split_operands(c, L, ck, r):
    o = mk(c, 2, ck, r)['psi']
    Am = np.einsum('alk,bkr->ablr', o.A[0], o.A[1]).reshape(4, 1, 1)
    return {'A': Am, 'qd0': o.qd.copy(), 'qd1': o.qd.copy(), 'qD': [o.qD[0].copy(), o.qD[2].copy()]}


for _d in ('left', 'right', 'sqrt'):
    op('split_mps_tensor_' + _d)((_split_operands, (lambda A, qd0, qd1, qD, d=_d: split_mps_tensor(A, qd0, qd1, qD, d, 0.05))))

op('compute_right_operator_blocks')((lambda c, L, ck, r: _two(mk(c, L, ck, r), 'psi', 'H'), lambda psi, H: opn.compute_right_operator_blocks(psi, H)))
op('apply_local_hamiltonian')((lambda c, L, ck, r: _env(mk(c, L, ck, r)), lambda BL, BR, W, A: opn.apply_local_hamiltonian(BL, BR, W, A)))
op('contraction_operator_step_left')((lambda c, L, ck, r: _env(mk(c, L, ck, r)), lambda BL, BR, W, A: opn.contraction_operator_step_left(A, A, W, BL)))
op('contraction_operator_step_right')((lambda c, L, ck, r: _env(mk(c, L, ck, r)), lambda BL, BR, W, A: opn.contraction_operator_step_right(A, A, W, BR)))
op('apply_local_bond_contraction')((lambda c, L, ck, r: {'Lb': palette.generic(c.rng(0), (2, 3, 2), 'complex'), 'Rb': palette.generic(c.rng(1), (2, 3, 2), 'complex'),
                                                          'C': palette.generic(c.rng(2), (2, 2), 'complex')},
                                    lambda Lb, Rb, C: opn.apply_local_bond_contraction(Lb, Rb, C)))


def _kry(c, L, ck, r):
    n = 4
    M = palette.generic(c.rng(0), (n, n), 'complex')
    M = M + M.conj().T
    return {'M': M, 'v': palette.generic(c.rng(1), n, 'real' if r else 'complex')}


op('lanczos_iteration')((_kry, lambda M, v: krylov.lanczos_iteration(lambda x: M @ x, v, 3)))
op('arnoldi_iteration')((_kry, lambda M, v: krylov.arnoldi_iteration(lambda x: M @ x, v, 3)))
op('eigh_krylov')((_kry, lambda M, v: krylov.eigh_krylov(lambda x: M @ x, v, 3, 2)))
op('expm_krylov_h')((_kry, lambda M, v: krylov.expm_krylov(lambda x: M @ x, v, 0.2j, 3, hermitian=True)))
op('expm_krylov_g')((_kry, lambda M, v: krylov.expm_krylov(lambda x: M @ x, v, 0.2j, 3, hermitian=False)))

op('OpGraph_from_opchains')((lambda c, L, ck, r: {'chains': [OpChain([1, 2], [0, 0, 0], 1.0, 0), OpChain([2], [0, 0], 0.5, 1)]},
                             lambda chains: OpGraph.from_opchains(chains, 2, 0)))
op('OpGraph_from_optrees')((lambda c, L, ck, r: {'trees': [small_tree()]}, lambda trees: OpGraph.from_optrees(trees, 3, 0)))
op('OpGraph_from_automaton')((lambda c, L, ck, r: {'aut': small_automaton()}, lambda aut: OpGraph.from_automaton(aut, 3)))
op('OpGraph_as_matrix')((lambda c, L, ck, r: {'graph': small_graph(), 'opmap': {k: v.copy() for k, v in OPMAP.items()}},
                         lambda graph, opmap: graph.as_matrix(opmap)))
op('OpChain_padded')((lambda c, L, ck, r: {'chain': OpChain([1, 2], [0, 1, 0], 1.5, 1)}, lambda chain: chain.padded(4, 0)))
op('OpChain_as_matrix')((lambda c, L, ck, r: {'chain': OpChain([1, 2], [0, 1, 0], 1.5, 1), 'opmap': {k: v.copy() for k, v in OPMAP.items()}},
                         lambda chain, opmap: chain.as_matrix(opmap)))
op('OpTree_as_matrix')((lambda c, L, ck, r: {'tree': small_tree(), 'opmap': {k: v.copy() for k, v in OPMAP.items()}},
                        lambda tree, opmap: tree.as_matrix(opmap)))
op('linear_fermionic_mpo')((lambda c, L, ck, r: {'coeff': palette.generic(c.rng(0), L, 'complex')}, lambda coeff: ptn.linear_fermionic_mpo(coeff, 'c')))
op('molecular_hamiltonian_mpo')((lambda c, L, ck, r: {'t': palette.generic(c.rng(0), (L + 1, L + 1), 'real'), 'v': palette.generic(c.rng(1), (L + 1,) * 4, 'real')},
                                 lambda t, v: ptn.molecular_hamiltonian_mpo(t, v, optimize=True)))
op('molecular_hamiltonian_mpo_explicit')((lambda c, L, ck, r: {'t': palette.generic(c.rng(0), (4, 4), 'real'), 'v': palette.generic(c.rng(1), (4,) * 4, 'real')},
                                          lambda t, v: ptn.molecular_hamiltonian_mpo(t, v, optimize=False)))
op('spin_molecular_hamiltonian_mpo')((lambda c, L, ck, r: {'t': palette.generic(c.rng(0), (2, 2), 'real'), 'v': palette.generic(c.rng(1), (2,) * 4, 'real'),
                                                           'opt': bool(L % 2)},
                                      lambda t, v, opt: ptn.spin_molecular_hamiltonian_mpo(t, v, optimize=opt)))


def _gauge_operands(c, L, ck, r):
    t = palette.generic(c.rng(0), (4, 4), 'real')
    v = palette.generic(c.rng(1), (4,) * 4, 'real')
    h = ptn.molecular_hamiltonian_mpo(t, v, optimize=False)
    th = 0.3
    u = np.array([[np.cos(th), -np.sin(th)], [np.sin(th), np.cos(th)]])
    return {'h': h, 'u': u}


op('orbital_gauge_transform')((_gauge_operands, lambda h, u: ptn.molecular_hamiltonian_orbital_gauge_transform(h, u, 1)))

# constructors called again after their first result was modified in place: no state may leak between calls
CTOR_CALLS = {
    'ising': lambda L: ptn.ising_mpo(L, 1.0, 0.3, 0.7),
    'xxz': lambda L: ptn.heisenberg_xxz_mpo(L, 1.0, 0.7, 0.2),
    'xxz_spin1': lambda L: ptn.heisenberg_xxz_spin1_mpo(L, 1.0, 0.7, 0.2),
    'bose': lambda L: ptn.bose_hubbard_mpo(3, L, 0.8, 1.5, 0.2),
    'fermi_hubbard': lambda L: ptn.fermi_hubbard_mpo(L, 1.0, 2.5, 0.3),
    'linear_fermionic': lambda L: ptn.linear_fermionic_mpo([0.7, -0.4, 1.1][:L], 'a'),
    'molecular_opt': lambda L: ptn.molecular_hamiltonian_mpo(np.arange(16.).reshape(4, 4) / 7, np.arange(256.).reshape(4, 4, 4, 4) / 90, optimize=True),
    'molecular_explicit': lambda L: ptn.molecular_hamiltonian_mpo(np.arange(16.).reshape(4, 4) / 7, np.arange(256.).reshape(4, 4, 4, 4) / 90, optimize=False),
    'spin_molecular': lambda L: ptn.spin_molecular_hamiltonian_mpo(np.arange(4.).reshape(2, 2) / 3, np.arange(16.).reshape(2, 2, 2, 2) / 9, optimize=bool(L % 2)),
    'identity': lambda L: MPO.identity(np.array([0, 1]), L),
}


def run_ctor_case(case, ctx):
    _, name, L = case
    ctx.cls('ctor_twice:' + name)
    ctx.nontrivial = True
    with warnings.catch_warnings():
        warnings.simplefilter('ignore')
        r1 = CTOR_CALLS[name](L)
        s1 = snap(r1)
        # every follow-up mutation of the first result, then a second call
        for mname, m in mutations_for(r1):
            r = CTOR_CALLS[name](L)
            m(r)
            r2 = CTOR_CALLS[name](L)
            ctx.calls += 2
            if not ctx.check(snap(r2) == s1, f'{name}:second_call_unaffected_by_mutation_of_first_result', mname):
                return


def _ctor_cases():
    for name in CTOR_CALLS:
        for L in (1, 2, 3):
            yield ['ctor', name, L]


# in-place algorithms: only the documented target may change
op('orthonormalize_left', inplace=('psi',))((lambda c, L, ck, r: _two(mk(c, L, ck, r), 'psi'), lambda psi: psi.orthonormalize('left')))
op('orthonormalize_right', inplace=('psi',))((lambda c, L, ck, r: _two(mk(c, L, ck, r), 'psi'), lambda psi: psi.orthonormalize('right')))
op('mpo_orthonormalize', inplace=('H',))((lambda c, L, ck, r: _two(mk(c, L, ck, r), 'H'), lambda H: H.orthonormalize('left')))
op('compress', inplace=('psi',))((lambda c, L, ck, r: _two(mk(c, L, ck, r), 'psi'), lambda psi: psi.compress(0.05, 'left')))
op('tdvp_singlesite', inplace=('psi',))((lambda c, L, ck, r: {'H': herm(c, L, ck), 'psi': mk(c, L, ck, r)['psi']},
                                         lambda H, psi: ptn.integrate_local_singlesite(H, psi, 0.1j, 1, numiter_lanczos=4)))
op('tdvp_twosite', inplace=('psi',))((lambda c, L, ck, r: {'H': herm(c, max(L, 2), ck), 'psi': mk(c, max(L, 2), ck, r)['psi']},
                                      lambda H, psi: ptn.integrate_local_twosite(H, psi, 0.1j, 1, numiter_lanczos=4, tol_split=1e-3)))
op('dmrg_singlesite', inplace=('psi',))((lambda c, L, ck, r: {'H': herm(c, L, ck), 'psi': mk(c, L, ck, r)['psi']},
                                         lambda H, psi: ptn.calculate_ground_state_local_singlesite(H, psi, 1, numiter_lanczos=4)))
op('dmrg_twosite', inplace=('psi',))((lambda c, L, ck, r: {'H': herm(c, max(L, 2), ck), 'psi': mk(c, max(L, 2), ck, r)['psi']},
                                      lambda H, psi: ptn.calculate_ground_state_local_twosite(H, psi, 1, numiter_lanczos=4)))
op('OpGraph_add', inplace=('graph',))((lambda c, L, ck, r: {'graph': small_graph(), 'other': OpGraph.from_opchains([OpChain([2, 2], [0, 0, 0], 1.0, 0)], 2, 0)},
                                       lambda graph, other: graph.add(other)))
def _disjoint_other():
    g = OpGraph.from_opchains([OpChain([2, 2], [0, 0, 0], 1.0, 0), OpChain([1, 2], [0, 0, 0], -0.5, 0)], 2, 0)
    for nid in sorted(g.nodes, reverse=True):
        g.rename_node_id(nid, nid + 100)
    for eid in sorted(g.edges, reverse=True):
        g.rename_edge_id(eid, eid + 200)
    return g


op('OpGraph_add_disjoint_ids', inplace=('graph',))((lambda c, L, ck, r: {'graph': small_graph(), 'other': _disjoint_other()},
                                                    lambda graph, other: graph.add(other)))
op('zero_qnumbers', inplace=('psi',))((lambda c, L, ck, r: _two(mk(c, L, ck, r), 'psi', 'phi'), lambda psi, phi: psi.zero_qnumbers()))


# ---- follow-up mutations of results ------------------------------------------------------------------

def mutations_for(res):
    muts = []
    if isinstance(res, (MPS, MPO)):
        muts.append(('zero_qnumbers', lambda x: x.zero_qnumbers()))
        muts.append(('orthonormalize_left', lambda x: x.orthonormalize('left')))
        muts.append(('orthonormalize_right', lambda x: x.orthonormalize('right')))
        if isinstance(res, MPS):
            muts.append(('compress', lambda x: x.compress(0.1, 'right')))
        for i in range(len(res.A)):
            muts.append((f'edit_tensor_{i}', lambda x, i=i: x.A[i].__setitem__(Ellipsis, 7)))
        for i in range(len(res.qD)):
            muts.append((f'edit_bond_charges_{i}', lambda x, i=i: x.qD[i].__iadd__(1)))
        muts.append(('edit_physical_charges', lambda x: x.qd.__iadd__(1)))
    elif isinstance(res, OpGraph):
        muts.append(('rename_node', lambda g: g.rename_node_id(g.nid_terminal[0], 99)))
        muts.append(('rename_edge', lambda g: g.rename_edge_id(sorted(g.edges)[0], 98)))
        muts.append(('simplify', lambda g: g.simplify()))
        muts.append(('flip', lambda g: g.flip()))
        muts.append(('edit_edge_ops', lambda g: [e.opics.__setitem__(0, (3, 9.0)) for e in g.edges.values()]))
        muts.append(('edit_node_lists', lambda g: [n.eids[1].append(1234) for n in g.nodes.values()]))
    elif isinstance(res, OpChain):
        muts.append(('edit_chain_lists', lambda ch: (ch.oids.append(5), ch.qnums.append(5))))
    return muts


def judged_result(res):
    """The sharing clause names MPS, MPO and operator graph results (also inside tuples); OpChain results behave the same way."""
    if isinstance(res, (MPS, MPO, OpGraph, OpChain)):
        return res
    return None


def run_op_case(case, ctx):
    name, L, ck, real = case
    build, call, inplace = OPS[name]
    ctx.cls('op:' + name)
    with warnings.catch_warnings():
        warnings.simplefilter('ignore')
        operands = build(ctx, L, ck, real)
        ctx.nontrivial = True
        s0 = {k: snap(v) for k, v in operands.items()}
        res = call(**operands)
        ctx.calls += 1
        for k, v in operands.items():
            if k in inplace:
                continue
            ctx.check(snap(v) == s0[k], f'{name}:operand_unchanged_by_call', f'operand {k}')
        jr = judged_result(res)
        if jr is None or inplace:
            return
        sh = shares(jr, operands)
        ctx.check(not sh, f'{name}:result_shares_no_state_with_operands', sh[:2])
        for mname, m in mutations_for(jr):
            operands = build(ctx, L, ck, real)
            s0 = {k: snap(v) for k, v in operands.items()}
            r2 = call(**operands)
            try:
                m(r2)
            except AssertionError:
                # a mutation that makes the result itself inconsistent (e.g. edited charges) may trip the library's own asserts later;
                # here the mutation itself is a plain in-place edit and cannot raise
                raise
            ctx.calls += 1
            for k, v in operands.items():
                ctx.check(snap(v) == s0[k], f'{name}:operand_unchanged_after_result_mutation', f'operand {k} after {mname}')
            if ctx.fails:
                return


# two-operation chains over the binary operations
BIN_MPS = {'add': lambda a, b: a + b, 'sub': lambda a, b: a - b, 'apply': None}
CHAIN_OPS = ['mps+', 'mps-', 'apply', 'mpo+', 'mpo-', 'mpo@']


def _apply_chain(opname, x, o):
    """x is the running object (MPS or MPO); o the operand dict."""
    if opname == 'mps+':
        return x + o['psi'] if isinstance(x, MPS) and _bc(x, o['psi']) else None
    if opname == 'mps-':
        return o['phi'] - x if isinstance(x, MPS) and _bc(x, o['phi']) else None
    if opname == 'apply':
        return ptn.apply_operator(o['K'], x) if isinstance(x, MPS) else None
    if opname == 'mpo+':
        return x + o['K'] if isinstance(x, MPO) and _bc(x, o['K']) else None
    if opname == 'mpo-':
        return o['K'] - x if isinstance(x, MPO) and _bc(x, o['K']) else None
    if opname == 'mpo@':
        return x @ o['K'] if isinstance(x, MPO) else None
    raise ValueError(opname)


def _bc(a, b):
    return (np.array_equal(a.qD[0], b.qD[0]) and np.array_equal(a.qD[-1], b.qD[-1]))


def run_chain_case(case, ctx):
    _, start, op1, op2, L, ck = case
    ctx.cls('chain')
    for mi in range(64):
        o = mk(ctx, L, ck, False)
        x0 = o[start]
        s0 = {k: snap(v) for k, v in o.items()}
        r1 = _apply_chain(op1, x0, o)
        if r1 is None:
            raise core.OutOfDomain()
        r2 = _apply_chain(op2, r1, o)
        if r2 is None:
            raise core.OutOfDomain()
        ctx.calls += 2
        ctx.nontrivial = True
        if mi == 0:
            for k, v in o.items():
                ctx.check(snap(v) == s0[k], 'chain:operand_unchanged_by_calls', k)
            sh = shares(r2, [o, r1]) + shares(r1, o)
            ctx.check(not sh, 'chain:results_share_no_state', sh[:2])
        muts = mutations_for(r2)
        if mi >= len(muts):
            break
        s1 = snap(r1)
        muts[mi][1](r2)
        ctx.check(snap(r1) == s1, 'chain:intermediate_result_unchanged_after_mutating_final_result', muts[mi][0])
        for k, v in o.items():
            ctx.check(snap(v) == s0[k], 'chain:operand_unchanged_after_mutating_final_result', f'{k} after {muts[mi][0]}')
        # and the other way round: mutate the intermediate result, the final one must not change
        s2 = snap(r2)
        m1 = mutations_for(r1)
        if mi < len(m1):
            m1[mi][1](r1)
            ctx.check(snap(r2) == s2, 'chain:final_result_unchanged_after_mutating_intermediate', m1[mi][0])
        if ctx.fails:
            return


# ---- E2 part: operation histories on the C02 worlds ------------------------------------------------------

from mc.history import explore_from, replay_history
from props import c02 as _c02


class ImmutabilitySystem(_c02.MPSSystem):
    """Same worlds and menu as C02; the judged invariant is: objects that are not the documented target of an operation stay
    bit-for-bit unchanged, and distinct objects of the world never share array memory."""

    def check_state(self, w, ctx):
        objs = {'psi': w.psi, 'phi': w.phi, 'H': w.H, 'K': w.K}
        names = list(objs)
        for i, a in enumerate(names):
            for b in names[i + 1:]:
                sh = shares(objs[a], objs[b])
                ctx.check(not sh, f'world_objects_share_no_state[{a},{b}]', sh[:1])

    def check(self, before, after, label, info, ctx):
        op = label[0]
        if op.startswith('psi') or op.startswith('tdvp') or op.startswith('dmrg') or op.startswith('split_merge'):
            target = 'psi'
        elif op.startswith('H'):
            target = 'H'
        elif op.startswith('phi'):
            target = 'phi'
        else:
            target = 'K'
        for name in ('psi', 'phi', 'H', 'K'):
            if name == target:
                continue
            ctx.check(snap(getattr(after, name)) == snap(getattr(before, name)), f'{op}:only_documented_target_changes', f'{name} changed')


_ISYS = ImmutabilitySystem()


def _hist_chunk(chunk, seed):
    desc, depth = chunk
    return explore_from(_ISYS, desc, _c02.build_world, depth, seed, 'world_histories')


def replay_case(space, case, seed):
    if space.name == 'world_histories':
        from props import hist_probe
        return hist_probe.replay(space, case, seed)
    ctx = space.run_one(case, seed)
    return ctx.fails


def _world_space(tier):
    from props import hist_probe
    return hist_probe.probe_space('world_histories', ['xxz3', 'ising3', 'fh2', 'bh3', 'linf3', 'mol4'], 2 if tier == 'quick' else 3, None, system=_ISYS)


def _op_cases():
    for name in OPS:
        for L in (1, 2, 3):
            for ck in ('zero', 'u1'):
                for real in (False, True):
                    yield [name, L, ck, real]


def _chain_cases():
    for start in ('psi', 'H'):
        for op1, op2 in itertools.product(CHAIN_OPS, repeat=2):
            for L in (1, 2, 3):
                for ck in ('zero', 'u1'):
                    yield ['chain', start, op1, op2, L, ck]


def sig(case):
    if isinstance(case, dict):
        return case['init']['world'] + ':' + '>'.join(str(o[0]) for o in case['init'].get('prefix', []) + case['ops'])
    return str(case[0]) if case[0] != 'chain' else f'chain:{case[2]}>{case[3]}'


def spaces(tier, seed):
    return [
        Space('operations', core.chunked(_op_cases(), 6), run_case=run_op_case, sig=sig,
              bounds={'operations': sorted(OPS), 'L': [1, 2, 3], 'charge_kinds': ['zero', 'u1'], 'dtypes': ['complex', 'real']}),
        Space('two_step_chains', core.chunked(_chain_cases(), 6), run_case=run_chain_case, sig=sig,
              bounds={'binary_ops': CHAIN_OPS, 'start': ['psi', 'H'], 'L': [1, 2, 3]}),
        _world_space(tier),
        Space('constructor_calls', core.chunked(_ctor_cases(), 2), run_case=run_ctor_case, sig=sig,
              bounds={'constructors': sorted(CTOR_CALLS), 'L': [1, 2, 3], 'what': 'call, mutate the result in every way, call again: the second result must be bit-identical to the first unmodified one'}),
    ]
