"""
C06 - built-in lattice Hamiltonians equal their textbook definitions.
"""

import itertools

import numpy as np

from mc import core, dense, fock
from mc.core import Space, OutOfDomain

import pytenet as ptn

ID = 'C06'
LEVEL = 'model_checking'
RULE = ('model x every L >= 1 with d^L <= bound x every parameter triple over {0,1,-1,g,-g\',2^-27} (formally-zero operators excluded); '
        'Bose-Hubbard d in 1..4; fermionic linear operator: both types (all spellings), coefficient vectors real/complex/with zeros/every '
        'one-hot; non-trivial = L >= 2 and at least two non-zero parameters')
BUDGET = {'quick': 400, 'thorough': 3600}
G1, G2 = 0.7310585786300049, 1.618033988749895
TINY = 2.0 ** -27     # a very weak but non-zero coupling
PVALS = [0.0, 1.0, -1.0, G1, -G2, TINY]
PTYPES = ['int', 'np_int64', 'np_float32', 'array0d']

SX = np.array([[0., 1.], [1., 0.]])
SZ = np.array([[1., 0.], [0., -1.]])
SY = np.array([[0., -1j], [1j, 0.]])


def site_op(op, i, L, d):
    return dense.kron_all([np.identity(d)] * i + [op] + [np.identity(d)] * (L - i - 1))


def two_site(op1, op2, i, L, d):
    return dense.kron_all([np.identity(d)] * i + [op1, op2] + [np.identity(d)] * (L - i - 2))


def spin_ops(s2):
    """Spin operators (Sx, Sy, Sz) for spin s2/2, basis ordered from m = +s down to -s."""
    s = s2 / 2
    ms = np.arange(s, -s - 1, -1)
    d = len(ms)
    Sz = np.diag(ms)
    Sp = np.zeros((d, d))
    for k in range(1, d):
        m = ms[k]
        Sp[k - 1, k] = np.sqrt(s * (s + 1) - m * (m + 1))
    Sx = (Sp + Sp.T) / 2
    Sy = (Sp - Sp.T) / 2j
    return Sx, Sy, Sz


def ref_ising(L, J, h, g):
    H = np.zeros((2 ** L, 2 ** L))
    for i in range(L - 1):
        H = H + J * two_site(SZ, SZ, i, L, 2)
    for i in range(L):
        H = H + h * site_op(SZ, i, L, 2) + g * site_op(SX, i, L, 2)
    return H


def ref_xxz(L, J, D, h, s2):
    Sx, Sy, Sz = spin_ops(s2)
    d = s2 + 1
    H = np.zeros((d ** L, d ** L), dtype=complex)
    for i in range(L - 1):
        H = H + J * (two_site(Sx, Sx, i, L, d) + two_site(Sy, Sy, i, L, d)) + D * two_site(Sz, Sz, i, L, d)
    for i in range(L):
        H = H - h * site_op(Sz, i, L, d)
    return H


def ref_bose(d, L, t, U, mu):
    b = np.zeros((d, d))
    for n in range(1, d):
        b[n - 1, n] = np.sqrt(n)
    nop = np.diag(np.arange(d, dtype=float))
    H = np.zeros((d ** L, d ** L))
    for i in range(L - 1):
        H = H - t * (two_site(b.T, b, i, L, d) + two_site(b, b.T, i, L, d))
    for i in range(L):
        H = H + 0.5 * U * site_op(nop @ (nop - np.identity(d)), i, L, d) - mu * site_op(nop, i, L, d)
    return H


def ref_fermi_hubbard(L, t, U, mu):
    cl, al = fock.modes(2 * L)
    dim = 4 ** L
    H = np.zeros((dim, dim))
    idm = np.identity(dim)
    n = [(c @ a).toarray() for c, a in zip(cl, al)]
    for i in range(L - 1):
        for s in (0, 1):
            p, q = 2 * i + s, 2 * (i + 1) + s
            H = H - t * ((cl[p] @ al[q]).toarray() + (cl[q] @ al[p]).toarray())
    for i in range(L):
        H = H + U * (n[2 * i] - 0.5 * idm) @ (n[2 * i + 1] - 0.5 * idm) - mu * (n[2 * i] + n[2 * i + 1])
    return H


MODELS = {
    #  name: (local dim, expected qd (decoded pairs for FH), builder, reference, L-dependence of terms: indices of two-site parameters)
    'ising': (2, [0, 0], lambda L, p: ptn.ising_mpo(L, *p), lambda L, p: ref_ising(L, *p), [0]),
    'xxz': (2, [1, -1], lambda L, p: ptn.heisenberg_xxz_mpo(L, *p), lambda L, p: ref_xxz(L, *p, 1), [0, 1]),
    'xxz_spin1': (3, [1, 0, -1], lambda L, p: ptn.heisenberg_xxz_spin1_mpo(L, *p), lambda L, p: ref_xxz(L, *p, 2), [0, 1]),
    'bose1': (1, [0], lambda L, p: ptn.bose_hubbard_mpo(1, L, *p), lambda L, p: ref_bose(1, L, *p), [0]),
    'bose2': (2, [0, 1], lambda L, p: ptn.bose_hubbard_mpo(2, L, *p), lambda L, p: ref_bose(2, L, *p), [0]),
    'bose3': (3, [0, 1, 2], lambda L, p: ptn.bose_hubbard_mpo(3, L, *p), lambda L, p: ref_bose(3, L, *p), [0]),
    'bose4': (4, [0, 1, 2, 3], lambda L, p: ptn.bose_hubbard_mpo(4, L, *p), lambda L, p: ref_bose(4, L, *p), [0]),
    'fermi_hubbard': (4, [(0, 0), (1, -1), (1, 1), (2, 0)], lambda L, p: ptn.fermi_hubbard_mpo(L, *p), lambda L, p: ref_fermi_hubbard(L, *p), [0]),
}


def _lengths(d, maxdim):
    if d == 1:
        return [1, 2, 3, 4, 5, 6]
    out, L = [], 1
    while d ** L <= maxdim:
        out.append(L)
        L += 1
    return out


def _model_cases(maxdim):
    for name, (d, _, _, _, _) in MODELS.items():
        for L in _lengths(d, maxdim if name != 'fermi_hubbard' else min(maxdim, 1024)):
            for p in itertools.product(PVALS, repeat=3):
                yield ['model', name, L, list(p)]
            # the same integral parameter triples passed as Python ints, NumPy integers and 0-d arrays (what a user types: J=1, h=0)
            for p in itertools.product([0, 1, -1, 2], repeat=3):
                for ptype in PTYPES:
                    yield ['model', name, L, list(p), ptype]
            # the same operator in other units: every parameter times 2^-70 / 2^40 (judged after undoing the scaling: the formulas are linear)
            for p in itertools.product([0.0, 1.0, -G2], repeat=3):
                for ptype in ('units:tiny', 'units:large'):
                    yield ['model', name, L, list(p), ptype]


def judge_common(ctx, mpo, Href, d, L, qd_expected, real_params, prefix=''):
    ctx.check(mpo.nsites == L, prefix + 'number_of_sites', mpo.nsites)
    M = dense.mpo_to_matrix(mpo.A)
    ctx.obs(M)
    ctx.close(M, Href, prefix + 'dense_matrix_equals_documented_formula')
    if real_params:
        ctx.close(M, M.conj().T, prefix + 'hermitian_for_real_parameters')
    qd = np.asarray(mpo.qd)
    if qd_expected and isinstance(qd_expected[0], tuple):
        got = [dense.decode_pair(q) for q in qd]
        ctx.check(got == qd_expected, prefix + 'physical_charges_are_particle_number_and_spin', got)
    else:
        ctx.check(qd.tolist() == list(qd_expected), prefix + 'physical_charges_as_documented', qd.tolist())
    ctx.check(all(len(q) == (a.shape[2]) for q, a in zip(mpo.qD, mpo.A)) and len(mpo.qD[-1]) == mpo.A[-1].shape[3], prefix + 'bond_charge_lengths')
    ctx.check(not dense.mpo_masks_ok(mpo.A, mpo.qd, mpo.qD), prefix + 'tensors_block_sparse_under_returned_charges')
    # conservation law on the dense matrix
    Q = dense.site_charges(qd, L)
    shift = int(np.asarray(mpo.qD[-1])[0]) - int(np.asarray(mpo.qD[0])[0])
    viol = np.count_nonzero((np.abs(M) > 1e-13) & ((Q[:, None] - Q[None, :]) != shift))
    ctx.check(viol == 0, prefix + 'dense_operator_conserves_charge_up_to_fixed_shift', f'{viol} entries violate, shift={shift}')


def run_model_case(case, ctx):
    _, name, L, p = case[:4]
    ptype = case[4] if len(case) > 4 else 'float'
    d, qd_exp, build, ref, two = MODELS[name]
    # formal-zero filter: no term of the documented formula that exists for this L has a non-zero coefficient
    live = [x for k, x in enumerate(p) if (k not in two) or L >= 2]
    if not any(x != 0 for x in live):
        raise OutOfDomain()
    unit = {'units:tiny': 2.0 ** -70, 'units:large': 2.0 ** 40}.get(ptype, 1.0)
    conv = {'float': float, 'int': int, 'np_int64': np.int64, 'np_float32': np.float32, 'array0d': lambda x: np.array(float(x))}.get(ptype, lambda x: x * unit)
    mpo = build(L, [conv(x) for x in p])
    ctx.calls += 1
    ctx.cls('model:' + name)
    ctx.cls('parameter_type:' + ptype)
    if unit != 1.0:
        mpo.A[0] = mpo.A[0] / unit          # undo the units (exact: power of two) before comparing with the formula
    ctx.cls(f'L={L}' if L <= 2 else 'L>=3')
    ctx.nontrivial = L >= 2 and sum(1 for x in p if x != 0) >= 2
    judge_common(ctx, mpo, ref(L, p), d, L, qd_exp, True)
    if ptype == 'float' and L <= 3 and not ctx.fails:
        # the constructor is called again after the first result has been modified in place (tensor entries, quantum numbers):
        # the second result must again be the documented operator
        mpo.A[0] *= 0
        mpo.A[-1] += 1
        mpo.zero_qnumbers()
        again = build(L, [float(x) for x in p])
        ctx.calls += 1
        judge_common(ctx, again, ref(L, p), d, L, qd_exp, True, prefix='second_call_after_mutating_first_result:')


COEFF_KINDS = ['real', 'complex', 'with_zeros', 'ones']
FTYPES = ['c', 'create', 'creation', 'a', 'annihilate', 'annihilation']


def _linear_cases(maxL):
    for L in range(1, maxL + 1):
        for ft in FTYPES:
            for ck in COEFF_KINDS:
                yield ['linear', L, ft, ck, -1]
            for hot in range(L):
                yield ['linear', L, ft, 'onehot', hot]


def run_linear_case(case, ctx):
    _, L, ft, ck, hot = case
    rng = ctx.rng(0)
    if ck == 'real':
        coeff = rng.normal(size=L)
    elif ck == 'complex':
        coeff = rng.normal(size=L) + 1j * rng.normal(size=L)
    elif ck == 'with_zeros':
        coeff = rng.normal(size=L) + 1j * rng.normal(size=L)
        coeff[::2] = 0
        if not np.any(coeff):
            raise OutOfDomain()
    elif ck == 'ones':
        coeff = np.ones(L)
    else:
        coeff = np.zeros(L)
        coeff[hot] = 1.0
    create = ft in ('c', 'create', 'creation')
    mpo = ptn.linear_fermionic_mpo(coeff, ft)
    ctx.calls += 1
    ctx.cls('linear_fermionic:' + ('create' if create else 'annihilate'))
    ctx.nontrivial = L >= 2
    cl, al = fock.modes(L)
    ref = sum(coeff[i] * (cl[i] if create else al[i]).toarray() for i in range(L))
    judge_common(ctx, mpo, ref, 2, L, [0, 1], False)
    shift = int(np.asarray(mpo.qD[-1])[0]) - int(np.asarray(mpo.qD[0])[0])
    ctx.check(shift == (1 if create else -1), 'particle_number_shift', shift)


def sig(case):
    return f'{case[1]}:L={case[2]}' if case[0] == 'model' else f'linear:{case[2]}:{case[3]}'


def spaces(tier, seed):
    maxdim = 512 if tier == 'quick' else 1024
    return [
        Space('models', core.chunked(_model_cases(maxdim), 25), run_case=run_model_case, sig=sig,
              bounds={'models': list(MODELS), 'dense_dim<=': maxdim, 'parameter_values': PVALS, 'parameter_types': "float; " + ", ".join(PTYPES) + " on the integral triples over 0, 1, -1, 2", 'L>=': 1}),
        Space('linear_fermionic', core.chunked(_linear_cases(8 if tier == 'quick' else 10), 10), run_case=run_linear_case, sig=sig,
              bounds={'L': '1..8 (quick) / 1..10', 'ftypes': FTYPES, 'coefficient_kinds': COEFF_KINDS + ['every one-hot']}),
    ]
