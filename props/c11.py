"""
C11 - block-sparse QR is an exact, isometric, charge-respecting factorisation.

Space: every shape m,n in 1..N x every q0 in {0,1,2}^m, q1 in {0,1,2}^n x charge map x value kind.
"""

import itertools

import numpy as np

from mc import core, palette
from mc.core import Space

from pytenet.bond_ops import qr

ID = 'C11'
LEVEL = 'model_checking'
RULE = ('full product of shapes x charge-vector pairs over a 3-letter alphabet x charge maps {id,neg,enc,big,huge(2**53+q)} x value kinds '
        '{complex,real,rankdef,zeroblock,zero}; non-trivial = at least one shared charge and a non-zero matrix')
BUDGET = {'quick': 300, 'thorough': 3000}
KINDS = ['complex', 'real', 'rankdef', 'zeroblock', 'zero', 'tiny', 'large', 'near_isometry']
SCALES = {'tiny': 2.0 ** -60, 'large': 2.0 ** 60}


def _cases(N, maps):
    shapes = sorted(((m, n) for m in range(1, N + 1) for n in range(1, N + 1)), key=lambda s: (s[0] + s[1], s))
    for (m, n) in shapes:
        for q0 in palette.vectors(m, palette.P3):
            for q1 in palette.vectors(n, palette.P3):
                for cm in maps:
                    for kind in KINDS:
                        yield [list(q0), list(q1), cm, kind]


def run_case(case, ctx):
    q0l, q1l, cm, kind = case
    f = palette.charge_map(cm)
    q0 = f(q0l)
    q1 = f(q1l)
    m, n = len(q0), len(q1)
    # 'tiny' / 'large': generic entries times an exact power of two (the factorisation is judged after undoing the scaling)
    sc = SCALES.get(kind, 1.0)
    A = palette.block_matrix(ctx.rng(0), q0, q1, 'complex' if kind in SCALES else kind) * sc
    if kind == 'real':
        A = A.real.copy()
    # memory layout of the argument: C-contiguous, Fortran-ordered, or a non-contiguous view (keyed by the case, all three occur)
    lay = (len(q0l) + 2 * len(q1l) + sum(q0l) + sum(q1l)) % 3
    if lay == 1:
        A = np.asfortranarray(A)
    elif lay == 2:
        big = np.zeros((2 * m, 2 * n), dtype=A.dtype)
        big[::2, ::2] = A
        A = big[::2, ::2]
    ctx.cls(('layout:C', 'layout:F', 'layout:strided_view')[lay])
    A0 = A.copy()
    Q, R, qi = qr(A, q0, q1)
    ctx.calls += 1
    ctx.obs(Q, R, np.asarray(qi))
    shared = sorted(set(q0.tolist()) & set(q1.tolist()))
    ctx.cls(f'q0:{palette.sortedness(q0)},q1:{palette.sortedness(q1)}' if shared else 'disjoint')
    ctx.cls('kind:' + kind)
    ctx.nontrivial = bool(shared) and bool(np.any(A0 != 0))
    qi = np.asarray(qi)
    k = Q.shape[1] if Q.ndim == 2 else -1
    if not ctx.check(Q.ndim == 2 and R.ndim == 2 and Q.shape[0] == m and R.shape[1] == n and R.shape[0] == k and len(qi) == k,
                     'shapes_consistent', f'Q{Q.shape} R{R.shape} qi{qi.shape}'):
        return
    ctx.check(k <= min(m, n), 'intermediate_dim_bounded', f'k={k} m={m} n={n}')
    ctx.check(k >= 1, 'intermediate_dim_positive', f'k={k}')
    ctx.close(Q @ (R / sc), A0 / sc, 'product_equals_matrix')
    ctx.close(Q.conj().T @ Q, np.identity(k), 'Q_orthonormal_columns')
    # block sparsity under intermediate charges (exact zeros required); charges compared as exact Python integers
    # (a mixed int64/float64 NumPy comparison would round charges above 2**53)
    e0 = np.array([int(x) for x in q0], dtype=object)
    e1 = np.array([int(x) for x in q1], dtype=object)
    try:
        ei = np.array([int(x) if float(x) == int(x) else x for x in qi.tolist()], dtype=object)
    except (TypeError, ValueError, OverflowError):
        ctx.fail('intermediate_charges_are_integers', repr(qi))
        return
    ctx.check(not np.any((e0[:, None] != ei[None, :]) & (Q != 0)), 'Q_block_sparse')
    ctx.check(not np.any((ei[:, None] != e1[None, :]) & (R != 0)), 'R_block_sparse')
    if not shared:
        ctx.check(k == 1, 'disjoint_intermediate_dim_one', f'k={k}')
        ctx.check(not np.any(R != 0), 'disjoint_R_zero')


def sig(case):
    return f'{len(case[0])}x{len(case[1])}:{case[2]}:{case[3]}'


def spaces(tier, seed):
    if tier == 'quick':
        N, maps = 4, ['id', 'neg', 'enc', 'huge']
    else:
        N, maps = 5, ['id', 'neg', 'enc', 'big', 'huge']
    return [Space('qr', core.chunked(_cases(N, maps), 3000), run_case=run_case, sig=sig,
                  bounds={'m,n<=': N, 'charge_alphabet': [0, 1, 2], 'charge_maps': maps, 'kinds': KINDS})]
