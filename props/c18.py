"""
C18 - bipartite matching is maximum, derived vertex cover is minimum.

Exhaustive: every edge subset of K_{a,b} (a,b<=4 quick; <=5 and 4x6/6x4 thorough), every edge
*sequence* with repetition up to a length bound on K_{a,b}, a,b<=3 (adjacency order and duplicate
edges), deterministic families up to 60x60 under vertex rotations.

Oracle (independent of Hopcroft-Karp): maximum matching size from Hall's defect formula
    nu(G) = |U| - max_{S subset U} (|S| - |N(S)|)
evaluated by bit masks (vectorised over a chunk of graphs); for the large families a plain
Kuhn augmenting-path matching written here.
"""

import itertools
import signal

import numpy as np

from mc import core
from mc.core import Space, ChunkResult

import pytenet as ptn
from pytenet.bipartite_graph import BipartiteGraph, HopcroftKarp, minimum_vertex_cover

ID = 'C18'
# termination on every input is part of C18: a graph on which the routines do not return within the limit is a violation
core.CASE_TIMEOUT_S = 120.0
core.TIMEOUT_IS_VIOLATION = True
LEVEL = 'model_checking'
RULE = ('every edge subset of K_{a,b} within the bounds, every edge sequence with repetition up to the length '
        'bound, parametric families under vertex rotations; a case is non-trivial when the graph has at least '
        'two edges sharing a vertex (so that the matching is not simply all edges) - counted per distinct case key')
ASSUMPTIONS = ['the randomly sampled part of the quantifier (graphs up to 60x60) is replaced by exhaustive parametric '
               'families; graphs beyond the stated bounds are not covered']
BUDGET = {'quick': 240, 'thorough': 3000}


def _popcount(x):
    x = x.astype(np.uint64)
    c = np.zeros(x.shape, dtype=np.int64)
    while True:
        nz = x != 0
        if not nz.any():
            break
        c += (x & np.uint64(1)).astype(np.int64)
        x = x >> np.uint64(1)
    return c


def hall_optimum(a, b, masks):
    """nu(G) for every edge mask (bit u*b+v <-> edge (u,v))."""
    masks = np.asarray(masks, dtype=np.uint64)
    rows = [(masks >> np.uint64(u * b)) & np.uint64((1 << b) - 1) for u in range(a)]
    best = np.zeros(masks.shape, dtype=np.int64)
    for S in range(1, 1 << a):
        N = np.zeros(masks.shape, dtype=np.uint64)
        k = 0
        for u in range(a):
            if S >> u & 1:
                N |= rows[u]
                k += 1
        best = np.maximum(best, k - _popcount(N))
    return a - best


def kuhn_optimum(a, b, edges):
    adj = [[] for _ in range(a)]
    for (u, v) in edges:
        if v not in adj[u]:
            adj[u].append(v)
    mv = [-1] * b

    def _aug(u, seen):
        for v in adj[u]:
            if v in seen:
                continue
            seen.add(v)
            if mv[v] == -1 or _aug(mv[v], seen):
                mv[v] = u
                return True
        return False

    import sys
    sys.setrecursionlimit(10000)
    n = 0
    for u in range(a):
        if _aug(u, set()):
            n += 1
    return n


def judge(a, b, edges, opt, fails, repeat=True):
    """Run the real code on one graph and judge; returns list of (clause, detail)."""
    g = BipartiteGraph(a, b, edges)
    hk = HopcroftKarp(g)
    m = hk()
    # the routine is an object that can be invoked again (history of calls on the same object): every invocation must return a
    # maximum matching, and an earlier result must not change afterwards
    m_first = list(m)
    for rep in ((2, 3) if repeat else ()):
        m_again = hk()
        if sorted(m_again) != sorted(m_first) and (len(m_again) != opt or len(set(u for u, _ in m_again)) != len(m_again)
                                                   or len(set(v for _, v in m_again)) != len(m_again)
                                                   or not all(e in set(edges) for e in m_again)):
            fails.append(('repeated_invocation_returns_maximum_matching', f'call {rep}: {m_again}'))
            break
    if list(m) != m_first:
        fails.append(('earlier_result_unchanged_by_later_invocation', f'{m_first} -> {m}'))
        m = m_first
    eset = set(edges)
    us = [u for u, _ in m]
    vs = [v for _, v in m]
    if not all((u, v) in eset for (u, v) in m):
        fails.append(('matching_subset_of_edges', str(m)))
    if len(set(us)) != len(us) or len(set(vs)) != len(vs):
        fails.append(('matching_vertex_disjoint', str(m)))
    if len(m) != opt:
        fails.append(('matching_maximum', f'size {len(m)} optimum {opt}'))
    uc, vc = minimum_vertex_cover(BipartiteGraph(a, b, edges))
    if not (all(0 <= u < a for u in uc) and all(0 <= v < b for v in vc)):
        fails.append(('cover_in_range', f'{uc} {vc}'))
    if len(set(uc)) != len(uc) or len(set(vc)) != len(vc):
        fails.append(('cover_no_duplicates', f'{uc} {vc}'))
    ucs, vcs = set(uc), set(vc)
    if not all((u in ucs) or (v in vcs) for (u, v) in eset):
        fails.append(('cover_touches_every_edge', f'{uc} {vc}'))
    if len(uc) + len(vc) != opt:
        fails.append(('cover_minimum', f'size {len(uc) + len(vc)} optimum {opt}'))
    return m, uc, vc


def _nontrivial(edges):
    us = [u for u, _ in set(edges)]
    vs = [v for _, v in set(edges)]
    return len(set(us)) < len(us) or len(set(vs)) < len(vs)


def _run_mask_chunk(chunk, seed):
    a, b, lo, hi = chunk
    res = ChunkResult()
    masks = np.arange(lo, hi, dtype=np.uint64)
    opts = hall_optimum(a, b, masks)
    alledges = [(u, v) for u in range(a) for v in range(b)]
    h = 0
    for mi, opt in zip(range(lo, hi), opts):
        edges = [e for k, e in enumerate(alledges) if mi >> k & 1]
        fails = []
        signal.setitimer(signal.ITIMER_REAL, core.CASE_TIMEOUT_S)
        try:
            m, uc, vc = judge(a, b, edges, int(opt), fails, repeat=(a * b <= 16))
            h = hash((h, tuple(m), tuple(uc), tuple(vc)))
        except core.CaseTimeout:
            fails.append(('termination', 'no result within time limit'))
        except Exception as e:  # noqa: BLE001
            fails.append((f'exc={type(e).__name__}', str(e)[:200]))
        finally:
            signal.setitimer(signal.ITIMER_REAL, 0)
        res.n += 1
        res.calls += 2
        case = {'a': a, 'b': b, 'edges': edges}
        if _nontrivial(edges):
            res.nontrivial_keys.append(core.key64(f'{a},{b},' + ','.join(f'{u}-{v}' for u, v in sorted(edges))))
        res.classes[f'nu={int(opt)}'] += 1
        if fails and len(res.fails) < 10:
            res.fails.append({'space': 'edge_subsets', 'case': case, 'fails': fails})
        elif fails:
            res.extra['fails_not_listed'] += 1
    res.samples.append({'a': a, 'b': b, 'edges': [e for k, e in enumerate(alledges) if (hi - 1) >> k & 1]})
    res.digests.append((core.key64(repr(chunk)), repr(h)))
    res.states = res.n
    return res


def run_graph_case(case, ctx):
    a, b = case['a'], case['b']
    edges = [tuple(e) for e in case['edges']]
    if a <= 6:
        mask = 0
        for (u, v) in edges:
            mask |= 1 << (u * b + v)
        opt = int(hall_optimum(a, b, np.array([mask], dtype=np.uint64))[0]) if a * b < 64 else kuhn_optimum(a, b, edges)
    else:
        opt = kuhn_optimum(a, b, edges)
    fails = []
    m, uc, vc = judge(a, b, edges, opt, fails)
    ctx.calls += 2
    ctx.fails.extend(fails)
    ctx.nontrivial = _nontrivial(edges)
    ctx.cls(f'nu={opt}' if opt < 8 else 'nu>=8')
    if len(edges) != len(set(edges)):
        ctx.cls('duplicate_edges')
    ctx.obs(tuple(m), tuple(uc), tuple(vc))


def _seq_cases(maxlen):
    for a in range(1, 4):
        for b in range(1, 4):
            alledges = [(u, v) for u in range(a) for v in range(b)]
            for n in range(0, maxlen + 1):
                for seq in itertools.product(alledges, repeat=n):
                    # subsets in canonical order without repetition are already in edge_subsets
                    if list(seq) == sorted(set(seq)):
                        continue
                    yield {'a': a, 'b': b, 'edges': [list(e) for e in seq]}


def family(name, n):
    if name == 'path':      # u0-v0-u1-v1-...
        return n, n, [(i, i) for i in range(n)] + [(i + 1, i) for i in range(n - 1)]
    if name == 'path_odd':  # ends in U on both sides: n+1 U vertices
        return n + 1, n, [(i, i) for i in range(n)] + [(i + 1, i) for i in range(n)]
    if name == 'crown':
        return n, n, [(i, j) for i in range(n) for j in range(n) if i != j]
    if name == 'half':
        return n, n, [(i, j) for i in range(n) for j in range(i, n)]
    if name == 'half_rev':
        return n, n, [(i, j) for i in reversed(range(n)) for j in reversed(range(i, n))]
    if name == 'complete':
        return n, max(1, n // 2), [(i, j) for i in range(n) for j in range(max(1, n // 2))]
    if name == 'empty':
        return n, n, []
    if name == 'star_union':  # disjoint stars alternately centred in U and V
        e = []
        k = n // 3
        for s in range(k):
            if s % 2 == 0:
                e += [(3 * s, 3 * s + t) for t in range(3)]
            else:
                e += [(3 * s + t, 3 * s) for t in range(3)]
        return max(1, 3 * k), max(1, 3 * k), e
    if name == 'ladder':    # worst-case-ish for augmenting paths: u_i ~ v_i, v_{i+1}, and u_i ~ v_0
        return n, n, [(i, i) for i in range(n)] + [(i, i + 1) for i in range(n - 1)] + [(i, 0) for i in range(1, n)]
    if name == 'two_blocks':
        h = max(1, n // 2)
        return n, n, [(i, j) for i in range(h) for j in range(h)] + [(i, j) for i in range(h, n) for j in range(h, n)] + [(n - 1, 0)]
    if name == 'path_union':
        # disjoint paths P_1..P_n (P_k: k vertices on each side, perfect matching), the first U vertex of every path numbered last
        # within its block and the "wrong" neighbour listed first: a greedy first phase mismatches every path, and one further
        # phase per path length is needed - the number of phases grows like sqrt(number of vertices)
        e = []
        off = 0
        for k in range(1, n + 1):
            lab = [off + k - 1] + [off + i - 1 for i in range(1, k)]
            for i in range(k):
                if i >= 1:
                    e.append((lab[i], off + i - 1))
                e.append((lab[i], off + i))
            off += k
        return off, off, e
    raise ValueError(name)


FAMILIES = ['path', 'path_odd', 'crown', 'half', 'half_rev', 'complete', 'empty', 'star_union', 'ladder', 'two_blocks', 'path_union']
# sizes of the 'path_union' family (number of paths; n paths have n(n+1)/2 vertices on each side)
PATH_UNION_SIZES = {'quick': [1, 2, 3, 4, 5, 6, 8, 10, 12, 14], 'thorough': list(range(1, 19))}


def _family_cases(tier):
    sizes_all = list(range(1, 9)) if tier == 'quick' else list(range(1, 13))
    sizes_big = [20, 60] if tier == 'quick' else [16, 20, 30, 45, 60]
    for name in FAMILIES:
        if name == 'path_union':
            for n in PATH_UNION_SIZES[tier]:
                a = n * (n + 1) // 2
                for (r, t) in ([(0, 0), (1, 0), (0, 1), (a // 2, a // 3)] if n > 1 else [(0, 0)]):
                    for rev in (False, True):
                        yield {'family': name, 'n': n, 'rot': [r, t], 'rev': rev}
            continue
        for n in sizes_all + sizes_big:
            if n > 20 and name in ('crown', 'complete', 'half', 'half_rev') and tier == 'quick' and n > 30:
                rots = [(0, 0), (1, 0), (0, 1), (n // 2, n // 3)]
            elif n in sizes_all:
                rots = None
            else:
                rots = [(r, 0) for r in range(0, n, max(1, n // 6))] + [(0, s) for s in range(1, n, max(1, n // 6))] + [(n // 2, n // 3)]
            a, b, e = family(name, n)
            if rots is None:
                rots = [(r, s) for r in range(a) for s in range(b)]
            for (r, s) in rots:
                for rev in (False, True):
                    yield {'family': name, 'n': n, 'rot': [r, s], 'rev': rev}


def run_family_case(case, ctx):
    a, b, e = family(case['family'], case['n'])
    r, s = case['rot']
    e = [((u + r) % a, (v + s) % b) for (u, v) in e]
    if case['rev']:
        e = e[::-1]
    run_graph_case({'a': a, 'b': b, 'edges': e}, ctx)
    ctx.cls('family:' + case['family'])


def spaces(tier, seed):
    if tier == 'quick':
        shapes = [(a, b) for a in range(1, 5) for b in range(1, 5)] + [(4, 5), (5, 4)]
        seqlen = 4
    else:
        shapes = [(a, b) for a in range(1, 6) for b in range(1, 6)] + [(4, 6), (6, 4)]
        seqlen = 5
    shapes.sort(key=lambda s: (s[0] * s[1], s))
    chunks = []
    for (a, b) in shapes:
        total = 1 << (a * b)
        step = 4096 if total <= (1 << 20) else 32768
        for lo in range(0, total, step):
            chunks.append((a, b, lo, min(total, lo + step)))
    sp1 = Space('edge_subsets', chunks, run_chunk=_run_mask_chunk, run_case=run_graph_case,
                bounds={'shapes': [list(s) for s in shapes], 'what': 'every subset of the a*b possible edges; for a*b <= 16 the same HopcroftKarp object is invoked three times'})
    sp2 = Space('edge_sequences', core.chunked(_seq_cases(seqlen), 2000), run_case=run_graph_case,
                bounds={'a,b<=': 3, 'max_sequence_length': seqlen,
                        'what': 'every edge sequence with repetition (orderings and duplicates)'})
    sp3 = Space('families', core.chunked(_family_cases(tier), 40), run_case=run_family_case,
                bounds={'families': FAMILIES, 'max_n': 60, 'path_union_sizes': PATH_UNION_SIZES[tier], 'what': 'rotations of vertex numbering, both edge-list directions'})
    return [sp1, sp2, sp3]
