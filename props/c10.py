"""
C10 - DMRG energies are variational, consistent with the returned state and monotone.
"""

import itertools

import numpy as np

from mc import core, palette, dense
from mc.core import Space, OutOfDomain
from props import evo_common as ec

import pytenet as ptn

ID = 'C10'
LEVEL = 'model_checking'
RULE = ('Hamiltonian kind x L in 2..5 x every total charge x start profile {one, small, maximal, over} x sweeps x Lanczos iterations x '
        'algorithm {single-site, two-site tol 0}, plus a second invocation on the result; non-trivial = sector dimension >= 2')
BUDGET = {'quick': 500, 'thorough': 3600}
PROFILES = ['one', 'small', 'maximal', 'over']


def _cases(tier):
    for name in ec.ALL_H:
        d = ec.local_dim(name)
        for L in range(2, 6):
            if d ** L > 256:
                continue
            H0 = ec.build_hamiltonian(name, L, np.random.default_rng(0))
            qd = [int(x) for x in H0.qd]
            seen = set()
            for tot in ec.totals_for(qd, L):
                for prof in PROFILES:
                    qD = palette.sector_profile(L, qd, 0, tot, prof)
                    if qD is None or core.canon(qD) in seen or max(map(len, qD)) > 12:
                        continue
                    seen.add(core.canon(qD))
                    for algo in ('single', 'two', 'two:0.01', 'two:0.2'):
                        if ':' in algo:
                            combos = [(1, 3), (2, 10)]
                        elif tier == 'quick':
                            combos = [(1, 2), (2, 3), (3, 10), (2, 40)]
                        else:
                            combos = list(itertools.product((1, 2, 3), (2, 3, 10, 40)))
                        for sweeps, it in combos:
                            yield [name, L, qD, algo, sweeps, it, prof, 'complex']
                        if ':' not in algo:
                            yield [name, L, qD, algo, 2, 3, prof, 'real']
                            # column-major tensors; tensors of size 2^-20 / 2^20 (DMRG starts by normalising: nothing may depend on the units)
                            for sk in ('fortran', 'tiny', 'large'):
                                yield [name, L, qD, algo, 2, 10, prof, sk]


def run_dmrg(algo, H, psi, sweeps, it):
    if algo == 'single':
        return ptn.calculate_ground_state_local_singlesite(H, psi, sweeps, numiter_lanczos=it)
    tol = float(algo.split(':')[1]) if ':' in algo else 0
    return ptn.calculate_ground_state_local_twosite(H, psi, sweeps, numiter_lanczos=it, tol_split=tol)


def run_case(case, ctx):
    name, L, qD, algo, sweeps, it, prof = case[:7]
    skind = case[7] if len(case) > 7 else 'complex'
    H = ec.build_hamiltonian(name, L, ctx.rng(5))
    qd = [int(x) for x in H.qd]
    psi = ec.make_state(ctx.rng(0), qd, qD, skind)
    ctx.cls('state_dtype:' + skind)
    v0 = dense.mps_to_vector(psi.A)
    n0 = np.linalg.norm(v0)
    if n0 <= 1e-12 * float(np.prod([np.linalg.norm(a) for a in psi.A])):
        raise OutOfDomain()
    Hd = dense.mpo_to_matrix(H.A)
    hb = ec.mpo_bytes(H)
    tot = int(qD[-1][0])
    idx = ec.sector_indices(qd, L, tot)
    Hs = Hd[np.ix_(idx, idx)]
    lam = np.linalg.eigvalsh((Hs + Hs.conj().T) / 2)
    E0 = float(lam[0])
    escale = 1 + float(np.max(np.abs(Hd)))
    eps = 1e-9 * escale
    e_start = float(np.vdot(v0, Hd @ v0).real / n0 ** 2)
    ctx.cls(f'H:{name}')
    ctx.cls(f'algo:{algo}')
    if ':' in algo and len(qD) - 1 < 2:
        raise OutOfDomain()
    ctx.nontrivial = len(idx) >= 2
    prev_last = e_start
    complete = prof == 'maximal' and palette.exactness_predicate(qd, qD, twosite=algo.startswith('two'))
    for inv in range(3):
        if inv == 2:
            # third invocation after modifying the SAME Hamiltonian object in place (rescaled first tensor)
            # (conjugation of site 0 by a diagonal phase matrix: Hermitian, charge preserving, same spectrum, not proportional)
            ph = np.exp(1j * np.linspace(0.3, 1.7, H.A[0].shape[0]))
            H.A[0] *= (ph[:, None] * ph.conj()[None, :])[:, :, None, None]
            Hd = dense.mpo_to_matrix(H.A)
            hb = ec.mpo_bytes(H)
            vcur = dense.mps_to_vector(psi.A)
            e_start = float(np.vdot(vcur, Hd @ vcur).real)
            prev_last = e_start
            ctx.cls('hamiltonian_modified_between_invocations')
        en = run_dmrg(algo, H, psi, sweeps, it)
        ctx.calls += 1
        en = np.asarray(en, dtype=float)
        v = dense.mps_to_vector(psi.A)
        ctx.obs(en, v)
        if not ctx.check(en.shape == (sweeps,), 'one_energy_per_sweep', en.shape):
            return
        ctx.check(abs(np.linalg.norm(v) - 1) <= 1e-9, 'state_normalised', f'invocation {inv}: {np.linalg.norm(v)}')
        ctx.check(bool(np.all(en >= E0 - eps)), 'energies_at_least_sector_ground_state', f'{en.tolist()} E0={E0}')
        ctx.check(ec.mpo_bytes(H) == hb, 'hamiltonian_not_modified')
        ctx.check(not dense.mps_masks_ok(psi.A, psi.qd, psi.qD), 'state_block_sparse_after')
        if ':' not in algo:
            # clauses stated for single-site and for two-site with zero split tolerance
            e_fin = float(np.vdot(v, Hd @ v).real)
            ctx.check(abs(e_fin - en[-1]) <= eps, 'last_energy_equals_expectation_value_of_state', f'invocation {inv}: {en[-1]} vs {e_fin}')
            ctx.check(bool(np.all(en <= e_start + eps)), 'energies_at_most_start_energy', f'{en.tolist()} start={e_start}')
            ctx.check(bool(np.all(np.diff(np.concatenate([[prev_last], en])) <= eps)), 'energies_non_increasing', f'prev={prev_last} en={en.tolist()}')
        if complete and ':' not in algo and it >= len(idx) + 1 and it >= 40:
            ctx.cls('complete_manifold')
            ctx.check(abs(en[-1] - E0) <= 1e-8 * escale, 'exact_ground_state_energy_on_complete_manifold', f'{en[-1]} vs {E0}')
        prev_last = float(en[-1])
        if ctx.fails:
            return


def _history_probe(w, ctx):
    import copy
    if w.name == 'linf3':
        return
    psi, H = w.psi, w.K
    if not np.array_equal(psi.qd, H.qd):
        return     # after zero_qnumbers() state and Hamiltonian no longer share physical quantum numbers (documented precondition)
    L = psi.nsites
    if L < 2:
        return
    v0 = dense.mps_to_vector(psi.A)
    n0 = float(np.linalg.norm(v0))
    if n0 < 1e-12 or max(psi.bond_dims) > 32:
        return
    qd = [int(x) for x in psi.qd]
    Hd = dense.mpo_to_matrix(H.A)
    tot = int(np.asarray(psi.qD[-1])[0]) - int(np.asarray(psi.qD[0])[0])
    idx = ec.sector_indices(qd, L, tot)
    Hs = Hd[np.ix_(idx, idx)]
    E0 = float(np.linalg.eigvalsh((Hs + Hs.conj().T) / 2)[0])
    escale = 1 + float(np.max(np.abs(Hd)))
    eps = 1e-9 * escale
    e_start = float(np.vdot(v0, Hd @ v0).real / n0 ** 2)
    for algo in ('single', 'two'):
        p2 = copy.deepcopy(psi)
        en = np.asarray(run_dmrg(algo, H, p2, 2, 3), dtype=float)
        ctx.calls += 1
        v = dense.mps_to_vector(p2.A)
        ctx.check(abs(np.linalg.norm(v) - 1) <= 1e-9, f'history:{algo}:state_normalised', np.linalg.norm(v))
        ctx.check(abs(float(np.vdot(v, Hd @ v).real) - en[-1]) <= eps, f'history:{algo}:last_energy_equals_expectation_value_of_state')
        ctx.check(bool(np.all(en >= E0 - eps)), f'history:{algo}:energies_at_least_sector_ground_state', f'{en.tolist()} E0={E0}')
        ctx.check(bool(np.all(en <= e_start + eps)), f'history:{algo}:energies_at_most_start_energy', f'{en.tolist()} start={e_start}')
        ctx.check(bool(np.all(np.diff(en) <= eps)), f'history:{algo}:energies_non_increasing', en.tolist())


def replay_case(space, case, seed):
    if space.name == 'history_states':
        from props import hist_probe
        return hist_probe.replay(space, case, seed)
    return space.run_one(case, seed).fails


def sig(case):
    return f'{case[0]}:L={case[1]}:{case[3]}:{case[6]}'


def spaces(tier, seed):
    from props import hist_probe
    hist = hist_probe.probe_space('history_states', ['xxz3', 'ising3', 'fh2', 'bh3', 'mol4'], 2 if tier == 'quick' else 3, _history_probe)
    return [hist, Space('dmrg', core.chunked(_cases(tier), 10), run_case=run_case, sig=sig,
                  bounds={'hamiltonians': ec.ALL_H, 'L': [2, 3, 4, 5], 'dense_dim<=': 256, 'profiles': PROFILES,
                          'sweeps_x_iterations': '(1,2),(2,3),(3,10),(2,40) quick / full product {1,2,3}x{2,3,10,40} thorough', 'invocations': 2})]
