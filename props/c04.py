"""
C04 - inner products, expectation values and environment blocks match dense results.
"""

import itertools

import numpy as np

from mc import core, palette, dense
from mc.core import Space
from props.c03 import mk_mps, mk_mpo, vec, mat, _pairs

from pytenet.operation import (vdot, norm, operator_average, operator_inner_product, operator_density_average,
                               compute_right_operator_blocks, contraction_operator_step_left,
                               apply_local_hamiltonian, apply_local_bond_contraction)

ID = 'C04'
LEVEL = 'model_checking'
RULE = ('bra/ket pairs with independent bond profiles and every sector-consistent charge layout x operator layout x dtype combination; '
        'for the local problems every site position x {one-site, two-site, zero-site} x Hermitian / non-Hermitian operator; '
        'non-trivial = all operands non-zero with a bond of dimension >= 2')
BUDGET = {'quick': 400, 'thorough': 3600}
SITE_DT = ['mwm', 'fvc', 'UUc', 'uuc', 'wmw', 'mmr', 'rwm', 'vfv', 'uUu']


def _scalar_cases(Ls, qds, Ds, dts):
    for L in Ls:
        for qd in qds:
            ops = [q for _, q in palette.mpo_structs(L, qd, [1, 2], totals=[0, 1])]
            step = max(1, len(ops) // 4)
            ops = ops[::step][:4] + ops[-1:]
            for a, b in _pairs(palette.mps_structs(L, qd, Ds)):
                for dt in dts:
                    yield ['scalars', qd, a, b, ops, dt]
            # bra and ket in different sectors: matrix elements of charge-shifting operators (one layout per total)
            st = palette.mps_structs(L, qd, [2] if L > 1 else [1])
            first = {}
            for t, q in st:
                first.setdefault(t, q)
            for (t1, a), (t2, b) in itertools.product(sorted(first.items()), repeat=2):
                if t1 != t2:
                    yield ['scalars', qd, a, b, _shift_ops(L, qd, t1 - t2), 'cc']


def _shift_ops(L, qd, shift):
    """Operator layouts whose total charge shift connects the two sectors (and one that does not)."""
    out = [q for _, q in palette.mpo_structs(L, qd, [1, 2], totals=[shift])][:3]
    out += [q for _, q in palette.mpo_structs(L, qd, [1], totals=[-shift])][:1]
    return out


def _density_cases(Ls, qds):
    for L in Ls:
        for qd in qds:
            st = [q for _, q in palette.mpo_structs(L, qd, [1, 2], totals=[0, 1, -1])]
            for a, b in itertools.product(st, repeat=2):
                yield ['density', qd, a, b]


def _local_cases(Ls, qds, Ds):
    for L in Ls:
        for qd in qds:
            ops = [q for _, q in palette.mpo_structs(L, qd, [1, 2], totals=[0])]
            for (_, p) in palette.mps_structs(L, qd, Ds):
                for o in ops:
                    for herm in (True, False):
                        yield ['local', qd, p, o, herm]


def hermitian_mpo_from(ctx, qd, qo):
    """Hermitian MPO built by the oracle (not by pytenet arithmetic): W -> (W + W^dagger) via direct sum of bonds."""
    A = palette.mpo_tensors(ctx.rng(7), qd, qo, 'complex')
    L = len(A)
    # adjoint tensors: swap physical legs and conjugate; bond charges are negated
    B = [a.transpose(1, 0, 2, 3).conj() for a in A]
    qB = [list((-np.asarray(q)).tolist()) for q in qo]
    if L == 1:
        return [A[0] + B[0]], [list(q) for q in qo]
    out = []
    qD = [list(qo[0])]
    for i in range(L):
        a, b = A[i], B[i]
        if i == 0:
            t = np.concatenate([a, b], axis=3)
        elif i == L - 1:
            t = np.concatenate([a, b], axis=2)
        else:
            d = a.shape[0]
            t = np.zeros((d, d, a.shape[2] + b.shape[2], a.shape[3] + b.shape[3]), dtype=complex)
            t[:, :, :a.shape[2], :a.shape[3]] = a
            t[:, :, a.shape[2]:, a.shape[3]:] = b
        out.append(t)
        if i < L - 1:
            qD.append(list(qo[i + 1]) + qB[i + 1])
    qD.append(list(qo[-1]))
    return out, qD


def embed(A, i, X, nsites=1):
    """Full vector of the state whose site tensor(s) i..i+nsites-1 are replaced by X (merged physical index for 2 sites)."""
    left = np.ones((1, 1, 1)) if i == 0 else None
    v = None
    # contract sites < i
    Lft = np.ones((1, 1))  # [phys_left, bond]
    for a in A[:i]:
        Lft = np.einsum('pl,slr->psr', Lft, a).reshape(-1, a.shape[2])
    Rgt = np.ones((1, 1))  # [bond, phys_right]
    for a in reversed(A[i + nsites:]):
        Rgt = np.einsum('slr,rp->lsp', a, Rgt).reshape(a.shape[1], -1)
    # X: [phys, l, r]
    full = np.einsum('pl,slr,rq->psq', Lft, X, Rgt)
    return full.reshape(-1)


def embed_bond(A, i, C):
    """Full vector with matrix C inserted on the bond between sites i and i+1."""
    Lft = np.ones((1, 1))
    for a in A[:i + 1]:
        Lft = np.einsum('pl,slr->psr', Lft, a).reshape(-1, a.shape[2])
    Rgt = np.ones((1, 1))
    for a in reversed(A[i + 1:]):
        Rgt = np.einsum('slr,rp->lsp', a, Rgt).reshape(a.shape[1], -1)
    return np.einsum('pl,lr,rq->pq', Lft, C, Rgt).reshape(-1)


def projected(Pcols, H):
    """G[j,k] = <P e_j | H | P e_k>."""
    P = np.stack(Pcols, axis=1)
    return P.conj().T @ H @ P


def run_case(case, ctx):
    kind = case[0]
    if kind == 'scalars':
        _, qd, qa, qb, ops, dt = case
        # dtype codes: r real, c complex, m / w dtype varying from site to site (props.c03._site_dtypes); optional third letter: operator
        code = {'r': True, 'c': False}
        chi = mk_mps(ctx, 0, qd, qa, code.get(dt[0], dt[0]))
        psi = mk_mps(ctx, 1, qd, qb, code.get(dt[1], dt[1]))
        opcode = code.get(dt[2], dt[2]) if len(dt) > 2 else False
        vc, vp = vec(chi), vec(psi)
        ctx.nontrivial = bool(np.any(vc) and np.any(vp)) and max(map(len, qa + qb)) >= 2
        ctx.cls(f'scalars:L={len(qa)-1}')
        ctx.close(vdot(chi, psi), np.sum(vc.conj() * vp), 'vdot_conjugates_first_argument')
        ctx.close(norm(psi), np.sqrt(np.sum(np.abs(vp) ** 2)), 'norm_dense')
        ctx.calls += 2
        for k, qo in enumerate(ops):
            op = mk_mpo(ctx, 10 + k, qd, qo, opcode)
            M = mat(op)
            ctx.close(operator_average(psi, op), vp.conj() @ M @ vp, 'expectation_value_dense')
            ctx.close(operator_inner_product(chi, op, psi), vc.conj() @ M @ vp, 'matrix_element_dense')
            ctx.calls += 2
        ctx.obs(np.asarray(vdot(chi, psi)))
    elif kind == 'density':
        _, qd, qa, qb = case
        rho = mk_mpo(ctx, 0, qd, qa, False)
        op = mk_mpo(ctx, 1, qd, qb, True)
        ctx.cls(f'density:L={len(qa)-1}')
        ctx.nontrivial = bool(np.any(mat(rho)) and np.any(mat(op)))
        ctx.close(operator_density_average(rho, op), np.trace(mat(op) @ mat(rho)), 'trace_of_product_dense')
        ctx.calls += 1
    elif kind == 'local':
        _, qd, qp, qo, herm = case
        psi = mk_mps(ctx, 0, qd, qp, False)
        L = psi.nsites
        if herm:
            from pytenet.mpo import MPO
            W, qW = hermitian_mpo_from(ctx, qd, qo)
            op = MPO(qd, qW, fill='postpone')
            op.A = W
        else:
            op = mk_mpo(ctx, 1, qd, qo, False)
        H = mat(op)
        if herm:
            ctx.check(np.max(np.abs(H - H.conj().T)) < 1e-12, 'HARNESS_hermitian_construction')
        A = psi.A
        ctx.cls(f'local:L={L}:{"herm" if herm else "nonherm"}')
        ctx.nontrivial = bool(np.any(vec(psi)) and np.any(H))
        BR = compute_right_operator_blocks(psi, op)
        BL = [None] * L
        BL[0] = np.array([[[1]]], dtype=complex)
        for i in range(L - 1):
            BL[i + 1] = contraction_operator_step_left(A[i], A[i], op.A[i], BL[i])
        ctx.calls += L
        # consistency of left and right blocks: <psi|H|psi> at every cut
        e0 = vec(psi).conj() @ H @ vec(psi)
        for i in range(L):
            x = apply_local_hamiltonian(BL[i], BR[i], op.A[i], A[i])
            ctx.close(np.sum(A[i].conj() * x), e0, 'blocks_reproduce_expectation_value_at_every_site')
        # one-site problems
        for i in range(L):
            shp = A[i].shape
            n = int(np.prod(shp))
            cols, P = [], []
            for k in range(n):
                e = np.zeros(n, dtype=complex)
                e[k] = 1
                cols.append(apply_local_hamiltonian(BL[i], BR[i], op.A[i], e.reshape(shp)).reshape(-1))
                P.append(embed(A, i, e.reshape(shp)))
            Heff = np.stack(cols, axis=1)
            ctx.calls += n
            ctx.close(Heff, projected(P, H), f'one_site_effective_hamiltonian_is_projection[site {i}]')
            if herm:
                ctx.close(Heff, Heff.conj().T, f'one_site_effective_hamiltonian_hermitian[site {i}]')
        # two-site problems
        for i in range(L - 1):
            Am = np.einsum('alk,bkr->ablr', A[i], A[i + 1])
            d0, d1 = A[i].shape[0], A[i + 1].shape[0]
            shp = (d0 * d1, A[i].shape[1], A[i + 1].shape[2])
            Wm = np.einsum('stlk,uvkr->sutvlr', op.A[i], op.A[i + 1])
            Wm = Wm.reshape(d0 * d1, d0 * d1, op.A[i].shape[2], op.A[i + 1].shape[3])
            n = int(np.prod(shp))
            cols, P = [], []
            for k in range(n):
                e = np.zeros(n, dtype=complex)
                e[k] = 1
                cols.append(apply_local_hamiltonian(BL[i], BR[i + 1], Wm, e.reshape(shp)).reshape(-1))
                P.append(embed(A, i, e.reshape(shp), nsites=2))
            Heff = np.stack(cols, axis=1)
            ctx.calls += n
            ctx.close(Heff, projected(P, H), f'two_site_effective_hamiltonian_is_projection[sites {i},{i+1}]')
            if herm:
                ctx.close(Heff, Heff.conj().T, f'two_site_effective_hamiltonian_hermitian[sites {i},{i+1}]')
        # zero-site (bond) problems
        for i in range(L - 1):
            D = A[i].shape[2]
            cols, P = [], []
            for k in range(D * D):
                e = np.zeros(D * D, dtype=complex)
                e[k] = 1
                cols.append(apply_local_bond_contraction(BL[i + 1], BR[i], e.reshape(D, D)).reshape(-1))
                P.append(embed_bond(A, i, e.reshape(D, D)))
            Heff = np.stack(cols, axis=1)
            ctx.calls += D * D
            ctx.close(Heff, projected(P, H), f'zero_site_effective_hamiltonian_is_projection[bond {i+1}]')
            if herm:
                ctx.close(Heff, Heff.conj().T, f'zero_site_effective_hamiltonian_hermitian[bond {i+1}]')
        # the same array objects with contents changed in place between two calls (nothing may be remembered across calls)
        for i in range(L):
            x0 = palette.generic(ctx.rng(50 + i), A[i].shape, 'complex')
            Lb, Rb, W = BL[i], BR[i], op.A[i]
            y0 = apply_local_hamiltonian(Lb, Rb, W, x0)
            W *= 3.0
            y1 = apply_local_hamiltonian(Lb, Rb, W, x0)
            Lb *= 2.0
            y2 = apply_local_hamiltonian(Lb, Rb, W, x0)
            Rb *= -1.0
            y3 = apply_local_hamiltonian(Lb, Rb, W, x0)
            ctx.calls += 4
            ctx.close(y1, 3 * y0, f'local_hamiltonian_uses_current_contents_of_W[site {i}]')
            ctx.close(y2, 6 * y0, f'local_hamiltonian_uses_current_contents_of_left_block[site {i}]')
            ctx.close(y3, -6 * y0, f'local_hamiltonian_uses_current_contents_of_right_block[site {i}]')
            if i < L - 1:
                D = A[i].shape[2]
                c0 = palette.generic(ctx.rng(70 + i), (D, D), 'complex')
                Lc, Rc = BL[i + 1], BR[i]
                z0 = apply_local_bond_contraction(Lc, Rc, c0)
                Lc *= 0.5
                z1 = apply_local_bond_contraction(Lc, Rc, c0)
                ctx.calls += 2
                ctx.close(z1, 0.5 * z0, f'bond_contraction_uses_current_contents_of_blocks[bond {i+1}]')
    else:
        raise ValueError(kind)


def sig(case):
    return case[0]


def spaces(tier, seed):
    qds = [[0, 1], [1, -1], [0, 0]]
    if tier == 'quick':
        return [
            Space('scalars', core.chunked(_scalar_cases([1, 2, 3], qds, [1, 2], ['cc', 'rc', 'cr']), 200), run_case=run_case, sig=sig,
                  bounds={'L': [1, 2, 3], 'qd': qds, 'D': [1, 2], 'dtypes': ['cc', 'rc', 'cr'], 'operators_per_pair': 5}),
            Space('scalars_site_dtypes', core.chunked(_scalar_cases([3], qds[:2], [1, 2], SITE_DT[:4]), 200), run_case=run_case, sig=sig,
                  bounds={'L': [3], 'qd': qds[:2], 'D': [1, 2], 'dtypes (bra, ket, operator; m/w vary from site to site, f/v column-major / strided views, u/U unbalanced units)': SITE_DT[:4]}),
            Space('density', core.chunked(_density_cases([1, 2], [[0, 1], [0, 0]]), 200), run_case=run_case, sig=sig,
                  bounds={'L': [1, 2], 'D': [1, 2]}),
            Space('local_problems', core.chunked(_local_cases([1, 2, 3], [[0, 1], [0, 0]], [1, 2]), 20), run_case=run_case, sig=sig,
                  bounds={'L': [1, 2, 3], 'qd': [[0, 1], [0, 0]], 'D_state': [1, 2], 'D_operator': [1, 2],
                          'problems': 'every site: one-site, two-site, zero-site; Hermitian and non-Hermitian operator'}),
        ]
    return [
        Space('scalars', core.chunked(_scalar_cases([1, 2, 3], qds, [1, 2, 3], ['cc', 'rc', 'cr', 'rr']), 200), run_case=run_case, sig=sig,
              bounds={'L': [1, 2, 3], 'qd': qds, 'D': [1, 2, 3], 'dtypes': ['cc', 'rc', 'cr', 'rr']}),
        Space('scalars_site_dtypes', core.chunked(itertools.chain(_scalar_cases([3], qds, [1, 2], SITE_DT), _scalar_cases([4], qds[:1], [1, 2], SITE_DT[:1])), 200), run_case=run_case, sig=sig,
              bounds={'L': '3; 4 with qd=[0,1] and the first dtype triple', 'qd': qds, 'D': [1, 2], 'dtypes (bra, ket, operator; m/w vary from site to site, f/v column-major / strided views)': SITE_DT}),
        Space('density', core.chunked(_density_cases([1, 2, 3], [[0, 1], [0, 0]]), 200), run_case=run_case, sig=sig,
              bounds={'L': [1, 2, 3], 'D': [1, 2]}),
        Space('local_problems', core.chunked(_local_cases([1, 2, 3], [[0, 1], [1, -1], [0, 0]], [1, 2]), 20), run_case=run_case, sig=sig,
              bounds={'L': [1, 2, 3], 'qd': qds, 'D_state': [1, 2], 'D_operator': [1, 2]}),
        Space('local_problems_D3', core.chunked(_local_cases([2, 3], [[0, 1]], [3]), 20), run_case=run_case, sig=sig,
              bounds={'L': [2, 3], 'qd': [[0, 1]], 'D_state': [3], 'D_operator': [1, 2]}),
        Space('local_problems_L4', core.chunked(itertools.chain(_local_cases([4], [[0, 1]], [1]), _local_cases([4], [[0, 0]], [1, 2])), 20),
              run_case=run_case, sig=sig,
              bounds={'L': [4], 'what': 'qd=[0,1] with D=1 chains (all charge paths); qd=[0,0] with D in {1,2}; operator D in {1,2}'}),
    ]
