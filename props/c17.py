"""
C17 - operator trees and state automata unfold to graphs with the same meaning.
"""

import itertools

import numpy as np

from mc import core, symbolic as sym
from mc.core import Space, OutOfDomain

from pytenet.opchain import OpChain
from pytenet.optree import OpTree, OpTreeNode, OpTreeEdge
from pytenet.autop import AutOp, AutOpNode, AutOpEdge
from pytenet.opgraph import OpGraph

ID = 'C17'
LEVEL = 'model_checking'
RULE = ('every operator tree of height <= H (letters {1,2}, coefficients {1,2}, <=2 children, inner-node charges {0,1}) x start site x '
        'length; every ordered pair of height<=1 trees; every automaton with <=3 nodes where each ordered node pair carries one of the '
        'edge kinds {none, a, c*b, site-dependent active, site-dependent opics} x length; non-trivial = polynomial with >=2 terms')
BUDGET = {'quick': 400, 'thorough': 3600}

# generic 3x3 complex operator map (fixed numbers, letter 0 must be the identity because pytenet pads with identities)
_r = np.random.default_rng(12345)
GEN3 = {0: np.identity(3), 1: _r.normal(size=(3, 3)) + 1j * _r.normal(size=(3, 3)), 2: _r.normal(size=(3, 3)) + 1j * _r.normal(size=(3, 3)),
        3: _r.normal(size=(3, 3)) + 1j * _r.normal(size=(3, 3))}


# ---- trees -----------------------------------------------------------------------------------
# tree description: ['leaf'] or [q, [[oid, coeff, child], ...]]

def tree_nodes(h, letters, coeffs, charges):
    """All tree nodes of height <= h (leaf charge 0)."""
    if h == 0:
        return [['leaf']]
    sub = tree_nodes(h - 1, letters, coeffs, charges)
    edges = [[o, c, t] for o in letters for c in coeffs for t in sub]
    out = [['leaf']]
    for q in charges:
        for e in edges:
            out.append([q, [e]])
        for e1, e2 in itertools.product(edges, repeat=2):
            out.append([q, [e1, e2]])
    return out


def tree_height(t):
    if t[0] == 'leaf':
        return 0
    return 1 + max(tree_height(e[2]) for e in t[1])


def cval(c):
    # complex coefficients are written as strings in cases (replay files are JSON)
    return complex(c) if isinstance(c, str) else c


def build_tree_node(t):
    if t[0] == 'leaf':
        return OpTreeNode([], 0)
    return OpTreeNode([OpTreeEdge(o, cval(c), build_tree_node(ch)) for (o, c, ch) in t[1]], t[0])


def tree_poly(t, remaining):
    """Polynomial of the subtree padded with identities after its leaves up to `remaining` sites."""
    if t[0] == 'leaf':
        return {(0,) * remaining: sym.frac(1)}
    if remaining == 0:
        raise OutOfDomain()
    p = {}
    for (o, c, ch) in t[1]:
        p = sym.padd(p, sym.pconcat({(o,): sym.frac(cval(c))}, tree_poly(ch, remaining - 1)))
    return p


def tree_in_domain(t, dist, is_root, istart):
    """Charges: a node placed on a terminal of the graph must carry charge 0."""
    if t[0] == 'leaf':
        return True
    if dist == 0:
        return False
    if is_root and istart == 0 and t[0] != 0:
        return False
    for (o, c, ch) in t[1]:
        if dist - 1 == 0 and ch[0] != 'leaf':
            return False
        if not tree_in_domain(ch, dist - 1, False, istart):
            return False
    return True


def _tree_cases(H, Ls, coeffs):
    # the tree whose root is a leaf (height 0, no operator) is part of the space: it denotes the identity string
    nodes = tree_nodes(H, [1, 2], coeffs, [0, 1])
    for L in Ls:
        for t in nodes:
            h = tree_height(t)
            for istart in range(0, L - max(h, 1) + 1):      # a start site is a lattice site, also for the height-0 tree
                if istart == 0 and t[0] not in (0, 'leaf'):
                    continue
                yield {'L': L, 'trees': [[istart, t]]}


def _pair_cases(Ls, coeffs):
    nodes = tree_nodes(1, [1, 2], coeffs, [0, 1])
    for L in Ls:
        cands = [[istart, t] for t in nodes for istart in range(0, L) if not (istart == 0 and t[0] not in (0, 'leaf'))]
        for a, b in itertools.product(cands, repeat=2):
            yield {'L': L, 'trees': [a, b]}


def dense_checks(ctx, graph, ref, L, label):
    for name, opmap, d in (('faithful', sym.FAITHFUL, 2), ('generic3', GEN3, 3)):
        if d ** L > 81:
            continue
        refd = sym.poly_dense(ref, opmap, L, d)
        for direction in (1, 0):
            M = graph.as_matrix(opmap, direction)
            ctx.calls += 1
            ctx.close(np.asarray(M), refd, f'{label}_graph_as_matrix[{name},dir={direction}]')


def run_tree_case(case, ctx):
    L = case['L']
    ref = {}
    trees = []
    for istart, t in case['trees']:
        if not tree_in_domain(t, L - istart, True, istart):
            raise OutOfDomain()
        ref = sym.padd(ref, sym.pconcat({(0,) * istart: sym.frac(1)}, tree_poly(t, L - istart)))
        trees.append(OpTree(build_tree_node(t), istart))
    ref = sym.pclean(ref)
    graph = OpGraph.from_optrees(trees, L, 0)
    ctx.calls += 1
    ctx.nontrivial = len(ref) >= 2
    ctx.cls('trees:%d' % len(trees))
    hs = sorted({tree_height(t) for _, t in case['trees']})
    ctx.cls('height:' + ','.join(map(str, hs)))
    bad = sym.graph_consistency(graph)
    ctx.check(not bad, 'graph_consistent', bad[:2])
    ctx.check(graph.is_consistent(), 'graph_is_consistent_method')
    if bad:
        return
    ctx.check(graph.length == L, 'graph_length', graph.length)
    got = sym.graph_poly(graph)
    ctx.obs(sorted((w, complex(c)) for w, c in got.items()))
    ctx.check(sym.pequal(got, ref), 'graph_equals_sum_of_padded_trees', sym.pdiff(got, ref))
    dense_checks(ctx, graph, ref, L, 'tree')
    # dense meaning of the tree itself (unpadded, height = own height)
    for (istart, t), tr in zip(case['trees'], trees):
        h = tree_height(t)
        p = sym.pclean(tree_poly(t, h))
        for name, opmap, d in (('faithful', sym.FAITHFUL, 2), ('generic3', GEN3, 3)):
            M = tr.as_matrix(opmap)
            ctx.calls += 1
            ctx.close(np.asarray(M), sym.poly_dense(p, opmap, h, d), f'optree_as_matrix[{name}]')
        ctx.check(tr.height() == h, 'optree_height', tr.height())


# ---- automata --------------------------------------------------------------------------------

EDGE_ALPH = ['none', 'a', 'cb', 'act', 'opx']


# types an activity flag may legitimately have: Python bool, NumPy bool (element of a boolean mask), integer 0/1
FLAG_TYPES = {'bool': bool, 'npbool': np.bool_, 'int': int, 'npint': np.int64}


def edge_spec(kind, flag='bool'):
    """(opics, active) with site-dependent callables for 'act' and 'opx'; activity flags of type FLAG_TYPES[flag]."""
    conv = FLAG_TYPES[flag]
    if kind == 'a':
        return [(1, 1.0)], conv(True)
    if kind == 'cb':
        return [(2, 0.5)], conv(True)
    if kind == 'act':
        return [(2, 1.0)], (lambda i: conv(i % 2 == 0))
    if kind == 'opx':
        return (lambda i: [(1, float(i + 1)), (3, -1.0)]), conv(True)
    raise ValueError(kind)


def edge_poly_at(kind, i):
    if kind == 'a':
        return {(1,): sym.frac(1)}
    if kind == 'cb':
        return {(2,): sym.frac(0.5)}
    if kind == 'act':
        return {(2,): sym.frac(1)} if i % 2 == 0 else {}
    if kind == 'opx':
        return {(1,): sym.frac(i + 1), (3,): sym.frac(-1)}
    raise ValueError(kind)


def automaton_poly(nn, term, assign, L):
    """Sum over all paths of length L from term[0] to term[1]; assign: list of (src, dst, kind)."""
    cur = {term[0]: {(): sym.frac(1)}}
    for i in range(L):
        nxt = {}
        for (s, t, kind) in assign:
            if s in cur:
                ep = edge_poly_at(kind, i)
                if ep:
                    nxt[t] = sym.padd(nxt.get(t, {}), sym.pconcat(cur[s], ep))
        cur = nxt
    return sym.pclean(cur.get(term[1], {}))


def has_path(nn, term, assign, L):
    """Is there an accepting path of length L (activity only, coefficients ignored)?"""
    cur = {term[0]}
    for i in range(L):
        cur = {t for (s, t, kind) in assign if s in cur and (kind != 'act' or i % 2 == 0)}
    return term[1] in cur


# automaton node ids: consecutive from 0, or scrambled / negative ones (what set iteration order and id-keyed lookups see)
ID_SETS = {'plain': None, 'scrambled': [10, 3, 25, 17], 'negative': [1, 0, -1, -2]}


def _aut_cases(nn, alph, Ls, terms, parallel=False, idsets=('plain',), flags=('bool',)):
    for ids in idsets:
        for flag in flags:
            for case in _aut_cases_plain(nn, alph, Ls, terms, parallel):
                if ids != 'plain':
                    case['ids'] = ids
                if flag != 'bool':
                    case['flag'] = flag
                yield case


def _aut_cases_plain(nn, alph, Ls, terms, parallel=False):
    pairs = [(s, t) for s in range(nn) for t in range(nn)]
    opts = [[k] for k in alph if k != 'none'] + [[]]
    if parallel:
        opts += [['a', 'cb'], ['a', 'a']]
    for combo in itertools.product(opts, repeat=len(pairs)):
        assign = [[s, t, k] for (s, t), ks in zip(pairs, combo) for k in ks]
        if not assign:
            continue
        for term in terms:
            for L in Ls:
                yield {'nn': nn, 'term': term, 'edges': assign, 'L': L}


def run_aut_case(case, ctx):
    nn, term, assign, L = case['nn'], case['term'], case['edges'], case['L']
    if not has_path(nn, term, assign, L):
        raise OutOfDomain()
    qn = [0, 0, 1, 0][:nn]
    ids = ID_SETS[case.get('ids', 'plain')] or list(range(nn))
    if 'ids' in case:
        ctx.cls('node_ids:' + case['ids'])
    nodes = [AutOpNode(ids[i], [], [], qn[i]) for i in range(nn)]
    aut = AutOp(nodes, [], [ids[term[0]], ids[term[1]]])
    for eid, (s, t, kind) in enumerate(assign):
        opics, active = edge_spec(kind, case.get('flag', 'bool'))
        aut.add_connect_edge(AutOpEdge(eid if 'ids' not in case else 40 - 3 * eid, [ids[s], ids[t]], opics, active))
    graph = OpGraph.from_automaton(aut, L)
    ctx.calls += 1
    ref = automaton_poly(nn, term, assign, L)
    ctx.nontrivial = len(ref) >= 2
    ctx.cls('automaton:%d_nodes' % nn)
    kinds = {k for _, _, k in assign}
    if 'act' in kinds or 'opx' in kinds:
        ctx.cls('site_dependent')
    if 'flag' in case:
        ctx.cls('activity_flag_type:' + case['flag'])
    if any(s == t for s, t, _ in assign):
        ctx.cls('self_loop')
    bad = sym.graph_consistency(graph, require_connected=True)
    ctx.check(not bad, 'graph_consistent', bad[:2])
    ctx.check(graph.is_consistent(), 'graph_is_consistent_method')
    if bad:
        return
    ctx.check(graph.length == L, 'graph_length', graph.length)
    got = sym.graph_poly(graph)
    ctx.obs(sorted((w, complex(c)) for w, c in got.items()))
    ctx.check(sym.pequal(got, ref), 'graph_equals_sum_over_automaton_paths', sym.pdiff(got, ref))
    if L <= 3:
        dense_checks(ctx, graph, ref, L, 'automaton')


# ---- chains (dense meaning) ------------------------------------------------------------------

def _chain_cases():
    for n in (1, 2, 3):
        for w in itertools.product((0, 1, 2, 3), repeat=n):
            for c in (1.0, -0.5, 2.0):
                yield {'word': list(w), 'coeff': c}


def run_chain_case(case, ctx):
    w, c = case['word'], case['coeff']
    ch = OpChain(w, [0] * (len(w) + 1), c, 0)
    p = {tuple(w): sym.frac(c)}
    ctx.nontrivial = len(w) >= 2
    ctx.cls('chain')
    for name, opmap, d in (('faithful', sym.FAITHFUL, 2), ('generic3', GEN3, 3)):
        M = ch.as_matrix(opmap)
        ctx.calls += 1
        ctx.close(np.asarray(M), sym.poly_dense(p, opmap, len(w), d), f'opchain_as_matrix[{name}]')


def sig(case):
    if 'trees' in case:
        return f'L={case["L"]}:trees={len(case["trees"])}'
    if 'nn' in case:
        return f'L={case["L"]}:nn={case["nn"]}'
    return 'chain'


def spaces(tier, seed):
    if tier == 'quick':
        sp = [
            Space('trees', core.chunked(_tree_cases(2, [1, 2, 3], [1.0, 2.0]), 500), run_case=run_tree_case, sig=sig,
                  bounds={'height<=': 2, 'L': [1, 2, 3], 'letters': [1, 2], 'coeffs': [1.0, 2.0], 'children<=': 2, 'inner_charges': [0, 1]}),
            Space('tree_pairs', core.chunked(_pair_cases([2, 3], [1.0, 2.0]), 500), run_case=run_tree_case, sig=sig,
                  bounds={'height<=': 1, 'L': [2, 3], 'ordered pairs of trees': True}),
            Space('tree_pairs_near_equal', core.chunked(_pair_cases([2], [1.0, 1.0 + 2.0 ** -27]), 500), run_case=run_tree_case, sig=sig,
                  bounds={'height<=': 1, 'L': [2], 'coeffs': [1.0, 1.0 + 2.0 ** -27],
                          'what': 'coefficients that are equal only under a tolerant comparison (from_optrees ends with simplify)'}),
            Space('tree_pairs_complex', core.chunked(_pair_cases([2], [1.0, '1j', '-1j']), 500), run_case=run_tree_case, sig=sig,
                  bounds={'height<=': 1, 'L': [2], 'coeffs': [1.0, '1j', '-1j'], 'what': 'complex coefficients: sums that cancel exactly or stay complex'}),
            Space('trees_complex', core.chunked(_tree_cases(2, [2, 3], ['(0.5-0.5j)']), 500), run_case=run_tree_case, sig=sig,
                  bounds={'height<=': 2, 'L': [2, 3], 'coeffs': ['(0.5-0.5j)']}),
            Space('automata2', core.chunked(_aut_cases(2, EDGE_ALPH, [1, 2, 3, 4], [[0, 1], [0, 0]], parallel=True, idsets=list(ID_SETS)), 300), run_case=run_aut_case, sig=sig,
                  bounds={'nodes': 2, 'edge_alphabet': EDGE_ALPH + ['a+cb parallel', 'a+a parallel'], 'L': [1, 2, 3, 4], 'terminals': [[0, 1], [0, 0]],
                          'node_ids': ID_SETS}),
            Space('automata3', core.chunked(_aut_cases(3, ['none', 'a', 'act'], [1, 2, 3, 4], [[0, 1]]), 500), run_case=run_aut_case, sig=sig,
                  bounds={'nodes': 3, 'edge_alphabet': ['none', 'a', 'act'], 'L': [1, 2, 3, 4]}),
            Space('automata3_opx', core.chunked(_aut_cases(3, ['none', 'cb', 'opx'], [2, 3], [[0, 1]]), 500), run_case=run_aut_case, sig=sig,
                  bounds={'nodes': 3, 'edge_alphabet': ['none', 'cb', 'opx'], 'L': [2, 3]}),
            Space('automata2_flag_types', core.chunked(_aut_cases(2, ['none', 'a', 'act'], [1, 2, 3, 4], [[0, 1], [0, 0]], flags=['npbool', 'int', 'npint']), 300),
                  run_case=run_aut_case, sig=sig,
                  bounds={'nodes': 2, 'edge_alphabet': ['none', 'a', 'act'], 'L': [1, 2, 3, 4], 'terminals': [[0, 1], [0, 0]],
                          'activity_flag_types': ['numpy.bool_', 'int', 'numpy.int64'],
                          'what': 'activity flags (constants and callable results) that are falsy/truthy without being the singletons False/True'}),
            Space('automata3_ids', core.chunked(_aut_cases(3, ['none', 'a', 'cb'], [2, 3], [[0, 1]], idsets=['scrambled', 'negative']), 500), run_case=run_aut_case, sig=sig,
                  bounds={'nodes': 3, 'edge_alphabet': ['none', 'a', 'cb'], 'L': [2, 3], 'node_ids': ['scrambled', 'negative']}),
            Space('tree_pairs_zero_coeff', core.chunked(_pair_cases([2], [1.0, 0.0]), 500), run_case=run_tree_case, sig=sig,
                  bounds={'height<=': 1, 'L': [2], 'coeffs': [1.0, 0.0], 'what': 'tree edges with coefficient exactly zero (also all children of a node)'}),
            Space('trees_zero_coeff', core.chunked(_tree_cases(2, [2, 3], [0.0]), 500), run_case=run_tree_case, sig=sig,
                  bounds={'height<=': 2, 'L': [2, 3], 'coeffs': [0.0]}),
        ]
    else:
        sp = [
            Space('trees', core.chunked(_tree_cases(2, [1, 2, 3, 4], [1.0, -1.0, 2.0]), 500), run_case=run_tree_case, sig=sig,
                  bounds={'height<=': 2, 'L': [1, 2, 3, 4], 'letters': [1, 2], 'coeffs': [1.0, -1.0, 2.0], 'children<=': 2}),
            Space('tree_pairs', core.chunked(_pair_cases([2, 3, 4], [1.0, -1.0, 2.0]), 500), run_case=run_tree_case, sig=sig,
                  bounds={'height<=': 1, 'L': [2, 3, 4]}),
            Space('tree_pairs_near_equal', core.chunked(_pair_cases([2], [1.0, 1.0 + 2.0 ** -27]), 500), run_case=run_tree_case, sig=sig,
                  bounds={'height<=': 1, 'L': [2], 'coeffs': [1.0, 1.0 + 2.0 ** -27],
                          'what': 'coefficients that are equal only under a tolerant comparison (from_optrees ends with simplify)'}),
            Space('tree_pairs_complex', core.chunked(_pair_cases([2, 3], [1.0, '1j', '-1j']), 500), run_case=run_tree_case, sig=sig,
                  bounds={'height<=': 1, 'L': [2, 3], 'coeffs': [1.0, '1j', '-1j'], 'what': 'complex coefficients: sums that cancel exactly or stay complex'}),
            Space('trees_complex', core.chunked(_tree_cases(2, [2, 3], ['(0.5-0.5j)']), 500), run_case=run_tree_case, sig=sig,
                  bounds={'height<=': 2, 'L': [2, 3], 'coeffs': ['(0.5-0.5j)']}),
            Space('automata2', core.chunked(_aut_cases(2, EDGE_ALPH, [1, 2, 3, 4, 5], [[0, 1], [0, 0]], parallel=True, idsets=list(ID_SETS)), 300), run_case=run_aut_case, sig=sig,
                  bounds={'nodes': 2, 'edge_alphabet': EDGE_ALPH, 'L': [1, 2, 3, 4, 5], 'terminals': [[0, 1], [0, 0]], 'node_ids': ID_SETS}),
            Space('automata3_ids', core.chunked(_aut_cases(3, ['none', 'a', 'cb', 'act'], [2, 3], [[0, 1]], idsets=['scrambled', 'negative']), 2000), run_case=run_aut_case, sig=sig,
                  bounds={'nodes': 3, 'edge_alphabet': ['none', 'a', 'cb', 'act'], 'L': [2, 3], 'node_ids': ['scrambled', 'negative']}),
            Space('tree_pairs_zero_coeff', core.chunked(_pair_cases([2, 3], [1.0, 0.0]), 500), run_case=run_tree_case, sig=sig,
                  bounds={'height<=': 1, 'L': [2, 3], 'coeffs': [1.0, 0.0], 'what': 'tree edges with coefficient exactly zero (also all children of a node)'}),
            Space('trees_zero_coeff', core.chunked(_tree_cases(2, [2, 3], [0.0, 2.0]), 500), run_case=run_tree_case, sig=sig,
                  bounds={'height<=': 2, 'L': [2, 3], 'coeffs': [0.0, 2.0]}),
            Space('automata3', core.chunked(_aut_cases(3, EDGE_ALPH, [1, 2, 3], [[0, 1]]), 2000), run_case=run_aut_case, sig=sig,
                  bounds={'nodes': 3, 'edge_alphabet': EDGE_ALPH, 'L': [1, 2, 3]}),
            Space('automata2_flag_types', core.chunked(_aut_cases(2, EDGE_ALPH, [1, 2, 3, 4, 5], [[0, 1], [0, 0]], parallel=True, flags=['npbool', 'int', 'npint']), 300),
                  run_case=run_aut_case, sig=sig,
                  bounds={'nodes': 2, 'edge_alphabet': EDGE_ALPH, 'L': [1, 2, 3, 4, 5], 'terminals': [[0, 1], [0, 0]],
                          'activity_flag_types': ['numpy.bool_', 'int', 'numpy.int64']}),
            Space('automata3_flag_types', core.chunked(_aut_cases(3, ['none', 'a', 'act'], [1, 2, 3, 4], [[0, 1]], flags=['npbool', 'int']), 2000),
                  run_case=run_aut_case, sig=sig,
                  bounds={'nodes': 3, 'edge_alphabet': ['none', 'a', 'act'], 'L': [1, 2, 3, 4], 'activity_flag_types': ['numpy.bool_', 'int']}),
        ]
    sp.append(Space('chains_dense', core.chunked(_chain_cases(), 100), run_case=run_chain_case, sig=sig,
                    bounds={'word_length<=': 3, 'letters': [0, 1, 2, 3], 'coeffs': [1.0, -0.5, 2.0]}))
    return sp
