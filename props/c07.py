"""
C07 - molecular Hamiltonian MPOs are exact for every orbital count, both build paths; orbital gauge transform.
"""

import itertools

import numpy as np

from mc import core, dense, fock, palette
from mc.core import Space

import pytenet as ptn

ID = 'C07'
LEVEL = 'model_checking'
RULE = ('every orbital count within dense reach x both build paths x coefficient kinds {real, complex, symmetric, zero-padded, sparse} and '
        'EVERY one-hot coefficient tensor t=e_ij, v=e_ijkl (complete term alphabet); gauge transform: every L, every rotated pair i, '
        '5 unitaries x 2 coefficient kinds; non-trivial = L >= 2')
BUDGET = {'quick': 500, 'thorough': 3600}
KINDS = ['real', 'complex', 'symmetric', 'zero_padded', 'sparse', 'mixed_rc', 'mixed_cr', 'mixed_int', 'units_tiny', 'units_large']
# units: every coefficient times an exact power of two; the operator is linear in (t, v) and is judged after undoing the scaling
UNITS = {'units_tiny': 2.0 ** -70, 'units_large': 2.0 ** 40}


def coeffs(rng, L, kind):
    if kind == 'real':
        return rng.normal(size=(L, L)), rng.normal(size=(L, L, L, L))
    if kind == 'complex':
        return (rng.normal(size=(L, L)) + 1j * rng.normal(size=(L, L)),
                rng.normal(size=(L,) * 4) + 1j * rng.normal(size=(L,) * 4))
    if kind == 'symmetric':
        t = rng.normal(size=(L, L))
        t = t + t.T
        v = rng.normal(size=(L,) * 4)
        v = v + v.transpose(1, 0, 3, 2)
        v = v + v.transpose(2, 3, 0, 1)
        return t, v
    if kind == 'zero_padded':
        t, v = rng.normal(size=(L, L)), rng.normal(size=(L,) * 4)
        t[-1, :] = 0; t[:, -1] = 0
        v[-1] = 0; v[:, -1] = 0; v[:, :, -1] = 0; v[:, :, :, -1] = 0
        return t, v
    if kind == 'mixed_rc':      # real one-body, complex two-body tensor
        return rng.normal(size=(L, L)), rng.normal(size=(L,) * 4) + 1j * rng.normal(size=(L,) * 4)
    if kind == 'mixed_cr':
        return rng.normal(size=(L, L)) + 1j * rng.normal(size=(L, L)), rng.normal(size=(L,) * 4)
    if kind == 'mixed_int':     # integer one-body tensor, float two-body tensor
        return rng.integers(-3, 4, size=(L, L)), rng.normal(size=(L,) * 4)
    if kind in UNITS:
        return (rng.normal(size=(L, L)) + 1j * rng.normal(size=(L, L))) * UNITS[kind], rng.normal(size=(L,) * 4) * UNITS[kind]
    if kind == 'sparse':
        t, v = rng.normal(size=(L, L)), rng.normal(size=(L,) * 4)
        t = np.where(rng.uniform(size=t.shape) < 0.4, t, 0)
        v = np.where(rng.uniform(size=v.shape) < 0.15, v, 0)
        return t, v
    raise ValueError(kind)


def lengths(spin, opt, tier):
    if not spin:
        hi = 6 if tier == 'quick' else 8
        return list(range(1 if opt else 4, hi + 1))
    hi = 4 if tier == 'quick' else 5
    return list(range(1 if opt else 2, (hi if opt else hi + 1) + 1))


def build(spin, t, v, opt):
    return (ptn.spin_molecular_hamiltonian_mpo if spin else ptn.molecular_hamiltonian_mpo)(t, v, optimize=opt)


def reference(spin, t, v):
    return (fock.spin_molecular if spin else fock.molecular)(t, v).toarray()


def _generic_cases(tier):
    for spin in (False, True):
        for opt in (True, False):
            for L in lengths(spin, opt, tier):
                for kind in KINDS:
                    if kind == 'zero_padded' and L == 1:
                        continue
                    yield ['generic', spin, opt, L, kind]
    if tier == 'quick':
        # the wiring of both constructions depends on L//2 and on how many orbitals lie left / right of the centre:
        # larger orbital counts with one coefficient kind each
        for L in (7, 8):
            for opt in (True, False):
                yield ['generic', False, opt, L, 'complex']
        yield ['generic', True, True, 5, 'sparse']
    # explicit spin-orbital construction with three orbitals on the left of the centre (L = 6, 4096-dimensional: sparse comparison)
    yield ['generic_sparse', True, False, 6, 'sparse']
    if tier != 'quick':
        yield ['generic_sparse', True, False, 6, 'real']


def _onehot_cases(tier):
    for spin in (False, True):
        for opt in (True, False):
            Ls = lengths(spin, opt, tier)
            for L in Ls:
                if (not spin and L > 6) or (spin and L > 4 and tier == 'quick'):
                    pass
                for i, j in itertools.product(range(L), repeat=2):
                    yield ['onehot', spin, opt, L, [i, j]]
                if (not spin and L <= (5 if tier == 'quick' else 6)) or (spin and L <= (3 if tier == 'quick' else 4)):
                    for idx in itertools.product(range(L), repeat=4):
                        yield ['onehot', spin, opt, L, list(idx)]


def run_case(case, ctx):
    kind0, spin, opt, L = case[:4]
    if kind0 == 'generic_sparse':
        return run_sparse_case(case, ctx)
    if kind0 == 'generic':
        t, v = coeffs(ctx.rng(0), L, case[4])
        ctx.cls(f'{"spin" if spin else "spinless"}:{"optimized" if opt else "explicit"}:{case[4]}')
    else:
        idx = case[4]
        t = np.zeros((L, L))
        v = np.zeros((L,) * 4)
        if len(idx) == 2:
            t[tuple(idx)] = 1.0
        else:
            v[tuple(idx)] = 1.0
        ctx.cls(f'{"spin" if spin else "spinless"}:{"optimized" if opt else "explicit"}:onehot_{"t" if len(idx) == 2 else "v"}')
    ctx.nontrivial = L >= 2
    Href = reference(spin, t, v)
    if not np.any(Href):
        # identically-zero operator (e.g. t = 0, v = e_iikl): C07 quantifies over ALL coefficient tensors, so this is in the domain
        ctx.cls('zero_operator')
    mpo = build(spin, t, v, opt)
    ctx.calls += 1
    d = 4 if spin else 2
    ctx.check(mpo.nsites == L, 'number_of_sites', mpo.nsites)
    unit = UNITS.get(case[4], 1.0) if kind0 == 'generic' else 1.0
    M = dense.mpo_to_matrix(mpo.A) / unit
    ctx.obs(M)
    ctx.close(M, Href / unit, 'mpo_equals_second_quantized_operator', tol=1e-10)
    # the other build path, where defined
    other_defined = (L >= 4) if not spin else (L >= 2)
    if opt and other_defined and kind0 == 'generic':
        m2 = build(spin, t, v, False)
        ctx.calls += 1
        ctx.close(dense.mpo_to_matrix(m2.A) / unit, M, 'optimized_and_explicit_construction_agree', tol=1e-10)


def run_sparse_case(case, ctx):
    """Large explicit spin-orbital MPO compared in sparse form.  The sparse conversion of the MPO is pytenet's own
    (`as_matrix(sparse_format=True)`, whose agreement with the dense form is the subject of C03); the reference is the independent
    Fock-space operator."""
    _, spin, opt, L, kind = case
    t, v = coeffs(ctx.rng(0), L, kind)
    if kind == 'sparse':
        v = np.where(ctx.rng(1).uniform(size=v.shape) < 0.2, v, 0)     # keep the reference affordable
    ctx.cls(f'spin:explicit:L={L}:sparse_comparison')
    ctx.nontrivial = True
    Href = (fock.spin_molecular if spin else fock.molecular)(t, v)
    mpo = build(spin, t, v, opt)
    ctx.calls += 1
    M = mpo.as_matrix(sparse_format=True)
    diff = abs(M - Href)
    err = diff.max() if diff.nnz else 0.0
    scale = max(abs(Href).max(), 1.0)
    ctx.obs(np.float64(err))
    ctx.check(M.shape == Href.shape, 'mpo_matrix_shape', M.shape)
    ctx.check(err <= 1e-10 * (1 + scale), 'mpo_equals_second_quantized_operator', f'err={err:.3e} scale={scale:.3e}')


def unitary(rng, kind):
    if kind == 'identity':
        return np.identity(2)
    if kind == 'swap':
        return np.array([[0., 1.], [1., 0.]])
    if kind == 'rotation':
        th = 0.7
        return np.array([[np.cos(th), -np.sin(th)], [np.sin(th), np.cos(th)]])
    if kind == 'phases':
        return np.diag(np.exp(1j * np.array([0.4, -1.1])))
    if kind == 'complex':
        q, _ = np.linalg.qr(rng.normal(size=(2, 2)) + 1j * rng.normal(size=(2, 2)))
        return q
    raise ValueError(kind)


UKINDS = ['identity', 'swap', 'rotation', 'phases', 'complex']


def _gauge_cases(tier):
    for L in [4, 5, 6, 7, 8]:
        for i in range(L - 1):
            for uk in (UKINDS if (L <= 6 or tier != 'quick') else ['phases', 'complex']):
                for ck in (('real', 'complex') if (L <= 6 or tier != 'quick') else ('complex',)):
                    yield ['gauge', L, i, uk, ck]


def run_gauge_case(case, ctx):
    _, L, i, uk, ck = case
    rng = ctx.rng(0)
    t, v = coeffs(rng, L, ck)
    u2 = unitary(ctx.rng(1), uk)
    ctx.cls('gauge:' + uk)
    ctx.nontrivial = True
    h = ptn.molecular_hamiltonian_mpo(t, v, optimize=False)
    u = np.identity(L, dtype=complex)
    u[i:i + 2, i:i + 2] = u2
    # rotated coefficients (documented usage: transposed single-orbital rotation applied to the coefficients)
    t_rot = np.einsum('ca,db,cd->ab', u, u.conj(), t)
    v_rot = np.einsum('ea,fb,gc,hd,efgh->abcd', u, u, u.conj(), u.conj(), v)
    h_rot = ptn.molecular_hamiltonian_mpo(t_rot, v_rot, optimize=False)
    M_rot = dense.mpo_to_matrix(h_rot.A)
    ctx.close(M_rot, reference(False, t_rot, v_rot), 'rotated_mpo_equals_rotated_operator', tol=1e-10)
    # usage protocol: tensors i, i+1 of the rotated MPO, multiplied by the gauge matrices, inside the original MPO
    A = [a.copy() for a in h.A]
    v_l, v_r = ptn.molecular_hamiltonian_orbital_gauge_transform(h, u2, i)
    ctx.calls += 3
    A[i] = np.einsum('lk,stkr->stlr', v_l, h_rot.A[i])
    A[i + 1] = np.einsum('rk,stlk->stlr', v_r, h_rot.A[i + 1])
    ok = all(A[k].shape[3] == A[k + 1].shape[2] for k in range(L - 1))
    if not ctx.check(ok, 'gauge_matrices_have_matching_dimensions', [a.shape for a in A]):
        return
    M = dense.mpo_to_matrix(A)
    ctx.obs(M)
    ctx.close(M, M_rot, 'gauge_transformed_original_equals_rotated_mpo', tol=1e-10)


def sig(case):
    if case[0] == 'gauge':
        return f'gauge:L={case[1]}:{case[3]}'
    return f'{case[0]}:{"spin" if case[1] else "spinless"}:{"opt" if case[2] else "explicit"}:L={case[3]}'


def spaces(tier, seed):
    return [
        Space('generic_coefficients', core.chunked(_generic_cases(tier), 1), run_case=run_case, sig=sig,
              bounds={'spinless_L': {'optimized': lengths(False, True, tier), 'explicit': lengths(False, False, tier)},
                      'spin_L': {'optimized': lengths(True, True, tier), 'explicit': lengths(True, False, tier)}, 'kinds': KINDS}),
        Space('onehot_coefficients', core.chunked(_onehot_cases(tier), 40), run_case=run_case, sig=sig,
              bounds={'what': 'every t=e_ij for all L above; every v=e_ijkl for spinless L<=5(6), spin L<=3(4)'}),
        Space('gauge_transform', core.chunked(_gauge_cases(tier), 4), run_case=run_gauge_case, sig=sig,
              bounds={'L': [4, 5, 6, 7, 8], 'i': 'every pair', 'unitaries': UKINDS, 'coefficients': ['real', 'complex'], 'note': 'quick: L=7,8 only with the non-real unitaries and complex coefficients'}),
    ]
