"""
CLI:  python -m mc.main <ID> --tier quick|thorough [--replay FILE] [--budget S]

exit 0: property held on everything explored (KNOWN-FINDING lines possible)
exit 1: at least one unlisted violation; prints `VIOLATION property=<ID> replay=<path>`
exit 2: harness error (a bug in the checking machinery itself, never reported as a violation)
"""

import argparse
import hashlib
import importlib
import json
import os
import re
import sys
import time

import numpy as np

from . import core


def load_known():
    """Parse KNOWN_FINDINGS.txt -> list of (property, sig-regex, text) for `known:` lines."""
    path = os.path.join(core.VERIF, 'KNOWN_FINDINGS.txt')
    known = []
    if not os.path.exists(path):
        return known
    for line in open(path):
        line = line.strip()
        if not line or line.startswith('#'):
            continue
        m = re.match(r'known:\s+property=(\S+)\s+sig=(\S+)\s+(.*)$', line)
        if m:
            known.append((m.group(1), m.group(2), m.group(3)))
        # `fixed:` lines suppress nothing
    return known


def failure_sig(space, f):
    """Signature of one failing case: space-specific class + first failing clause."""
    clause = f['fails'][0][0]
    extra = ''
    if space is not None and space.sig is not None:
        try:
            extra = space.sig(f['case'])
        except Exception:  # noqa: BLE001
            extra = ''
    return f'{f["space"]}/{clause}/{extra}' if extra else f'{f["space"]}/{clause}'


def main(argv=None):
    ap = argparse.ArgumentParser()
    ap.add_argument('pid')
    ap.add_argument('--tier', default=os.environ.get('VERIF_TIER', 'quick'), choices=['quick', 'thorough'])
    ap.add_argument('--replay', default=None)
    ap.add_argument('--budget', type=float, default=None)
    ap.add_argument('--max-report', type=int, default=20)
    ap.add_argument('--count', action='store_true', help='only count the cases of every space (no execution)')
    args = ap.parse_args(argv)

    pid = args.pid.upper()
    seed = int(os.environ.get('VERIF_SEED', '0') or 0)
    sys.path.insert(0, core.REPO)
    import warnings
    warnings.simplefilter('ignore')
    mod = importlib.import_module(f'props.{pid.lower()}')

    if args.replay:
        return replay(mod, pid, args.replay, seed)

    t0 = time.time()
    spaces = mod.spaces(args.tier, seed)
    if args.count:
        for sp in spaces:
            nch = n = 0
            for ch in sp.chunks:
                nch += 1
                if sp._run_chunk is None:
                    n += sum(1 for _ in sp.expand(ch))
            print(f'{pid} {args.tier} space {sp.name}: chunks={nch} cases={n if sp._run_chunk is None else "(custom chunk runner)"}')
        return 0
    budget = args.budget
    if budget is None:
        budget = getattr(mod, 'BUDGET', {}).get(args.tier)
    S = core.run_spaces(spaces, seed, budget_s=budget)
    byname = {sp.name: sp for sp in spaces}

    # ---- classify failures ------------------------------------------------------------------
    known = [k for k in load_known() if k[0] == pid]
    new, known_hits = [], {}
    for f in S.fails:
        sig = failure_sig(byname.get(f['space']), f)
        f['sig'] = sig
        for (_, pat, text) in known:
            if re.fullmatch(pat, sig):
                known_hits.setdefault((pat, text), []).append(f)
                break
        else:
            new.append(f)
    # smallest first
    new.sort(key=lambda f: len(core.canon(f['case'])))

    rep_dir = os.path.join(core.VERIF, 'replays', pid)
    printed = 0
    seen_sig = set()
    for f in new:
        if printed >= args.max_report:
            break
        if f['sig'] in seen_sig and printed >= 3:
            continue
        seen_sig.add(f['sig'])
        os.makedirs(rep_dir, exist_ok=True)
        body = {'property_id': pid, 'space': f['space'], 'case': f['case'], 'seed': seed, 'sig': f['sig'],
                'fails': f['fails'],
                'replay_cmd': f'./check {pid} --replay <this file>'}
        text = core.canon(body)
        h = hashlib.sha1(text.encode()).hexdigest()[:12]
        path = os.path.join(rep_dir, f'{h}.json')
        with open(path, 'w') as fh:
            json.dump(body, fh, indent=1, default=core._json_default)
        print(f'VIOLATION property={pid} replay={path}')
        print(f'  sig={f["sig"]} first={f["fails"][0]}')
        printed += 1
    for (pat, text), fl in known_hits.items():
        print(f'KNOWN-FINDING: property={pid} {text} (sig={pat}; {len(fl)} cases in this run)')

    if S.determinism_mismatch:
        print(f'HARNESS-ERROR property={pid}: non-deterministic observations on replay: {S.determinism_mismatch[:3]}')
    for he in S.harness_errors[:3]:
        print(f'HARNESS-ERROR property={pid}: {he["case"]!r}\n{he["trace"]}')

    # ---- evidence ------------------------------------------------------------------------------
    keys = np.unique(np.concatenate(S.keys)) if S.keys else np.zeros(0, dtype=np.uint64)
    violations = len(new) + S.extra.get('fails_not_listed', 0)
    cov = {
        'states': int(S.states),
        'transitions': int(S.calls),
        'traces_validated_against_impl': int(S.evaluations - S.out_of_domain),
        'evaluations': int(S.evaluations),
        'distinct_nontrivial': int(len(keys)),
        'rule': getattr(mod, 'RULE', ''),
        'samples': S.samples[:8] if S.samples else [],
        'exhaustive': bool(S.exhaustive and not S.harness_errors),
        'bounds': {n: ps['bounds'] for n, ps in S.per_space.items()},
        'per_space': {n: {k: v for k, v in ps.items() if k != 'bounds'} for n, ps in S.per_space.items()},
        'outcome_classes': dict(sorted(S.classes.items())),
        'out_of_domain': int(S.out_of_domain),
        'disabled_transitions': int(S.disabled),
        'caps_hit': S.caps_hit,
        'determinism_replays': int(S.determinism_replays),
        'determinism_mismatches': len(S.determinism_mismatch),
        'known_findings_matched': {t: len(fl) for (p, t), fl in known_hits.items()},
        'counters': dict(S.extra),
        'cpu_s': round(S.cpu_s, 2),
        'explanation': getattr(mod, 'EXPLANATION', ''),
    }
    ev = {
        'property_id': pid,
        'tier': args.tier,
        'seed': seed,
        'level': getattr(mod, 'LEVEL', 'model_checking'),
        'coverage': cov,
        'assumptions': getattr(mod, 'ASSUMPTIONS', []) + [
            'exhaustive over structure x value palette only: continuous data values outside the palette are not covered',
            f'pytenet imported from {core.REPO} working tree; numpy/scipy of /venv trusted',
        ],
        'wall_s': round(time.time() - t0, 2),
        'violations': int(violations),
    }
    os.makedirs(os.path.join(core.VERIF, 'evidence'), exist_ok=True)
    evp = os.path.join(core.VERIF, 'evidence', f'{pid}.json')
    with open(evp, 'w') as fh:
        json.dump(ev, fh, indent=1, default=core._json_default)
    if args.tier == 'thorough':
        # keep the record of the deeper run next to the quick evidence (which the next quick run overwrites)
        os.makedirs(os.path.join(core.VERIF, 'evidence', 'thorough'), exist_ok=True)
        with open(os.path.join(core.VERIF, 'evidence', 'thorough', f'{pid}.json'), 'w') as fh:
            json.dump(ev, fh, indent=1, default=core._json_default)
    print(f'{pid} tier={args.tier} seed={seed}: states={cov["states"]} transitions={cov["transitions"]} '
          f'evaluations={cov["evaluations"]} nontrivial={cov["distinct_nontrivial"]} ood={cov["out_of_domain"]} '
          f'violations={violations} known={sum(len(v) for v in known_hits.values())} '
          f'exhaustive={cov["exhaustive"]} wall={ev["wall_s"]}s cpu={cov["cpu_s"]}s')
    print('  classes:', dict(sorted(S.classes.items())))
    if S.fails:
        from collections import Counter
        print('  failing clauses (recorded cases):', dict(Counter(f['fails'][0][0] for f in S.fails)))
    if new or S.extra.get('fails_not_listed', 0):
        # failures beyond the recording caps cannot be matched against KNOWN_FINDINGS and count as violations
        return 1
    if S.harness_errors or S.determinism_mismatch:
        return 2
    if S.evaluations == 0:
        print(f'HARNESS-ERROR property={pid}: nothing explored')
        return 2
    return 1 if new else 0


def replay(mod, pid, path, seed):
    body = json.load(open(path))
    seed = body.get('seed', seed)
    spaces = mod.spaces('thorough', seed) + mod.spaces('quick', seed)
    sp = next((s for s in spaces if s.name == body['space']), None)
    if sp is None:
        print(f'unknown space {body["space"]}')
        return 2
    import signal
    signal.signal(signal.SIGALRM, core._alarm_handler)
    if hasattr(mod, 'replay_case'):
        fails = mod.replay_case(sp, body['case'], seed)
    else:
        ctx = sp.run_one(body['case'], seed)
        fails = ctx.fails
    print(json.dumps({'case': body['case'], 'fails': fails}, indent=1, default=core._json_default))
    if fails:
        print(f'VIOLATION property={pid} replay={path}')
        return 1
    print('replay: property holds on this case')
    return 0


if __name__ == '__main__':
    sys.exit(main())
