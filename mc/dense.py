"""
Independent dense references (nothing here calls pytenet).

Conventions (read off the pytenet docstrings, re-implemented with own einsum strings):
  MPS tensor  A[s, l, r]          charge rule  qd[s] + qD_l[l] - qD_r[r] == 0
  MPO tensor  W[s, t, l, r]       charge rule  qd[s] - qd[t] + qD_l[l] - qD_r[r] == 0
  dense vector index: site 0 is the most significant digit.
"""

import numpy as np


# --------------------------------------------------------------------------------------
# charge rule

def outer_sum(qlists):
    """Tensor of all sums q0[i0] + q1[i1] + ... (own implementation of the additive rule)."""
    if len(qlists) == 0:
        return np.zeros((), dtype=np.int64)
    total = None
    n = len(qlists)
    for ax, q in enumerate(qlists):
        q = np.asarray(q, dtype=np.int64)
        shape = [1] * n
        shape[ax] = len(q)
        t = q.reshape(shape)
        total = t if total is None else total + t
    return total


def mask_violations(T, qlists):
    """Number of entries of T that are non-zero although their charge sum is non-zero."""
    T = np.asarray(T)
    S = outer_sum(qlists)
    if S.shape != T.shape:
        return -1
    return int(np.count_nonzero((S != 0) & (T != 0)))


def mps_masks_ok(A, qd, qD):
    """List of (site, violations) for an MPS given as tensor list."""
    bad = []
    for i, a in enumerate(A):
        v = mask_violations(a, [qd, qD[i], -np.asarray(qD[i + 1], dtype=np.int64)])
        if v != 0:
            bad.append((i, v))
    return bad


def mpo_masks_ok(A, qd, qD):
    bad = []
    qd = np.asarray(qd, dtype=np.int64)
    for i, a in enumerate(A):
        v = mask_violations(a, [qd, -qd, qD[i], -np.asarray(qD[i + 1], dtype=np.int64)])
        if v != 0:
            bad.append((i, v))
    return bad


# --------------------------------------------------------------------------------------
# contraction

def mps_to_vector(A):
    """Dense vector of an MPS tensor list (own contraction)."""
    v = np.asarray(A[0])
    # v: [phys, l, r]
    for a in A[1:]:
        v = np.einsum('plr,qrs->pqls', v, a)
        v = v.reshape(v.shape[0] * v.shape[1], v.shape[2], v.shape[3])
    if v.shape[1] != 1 or v.shape[2] != 1:
        raise ValueError('outer bonds must have dimension 1')
    return v[:, 0, 0].copy()


def mpo_to_matrix(A):
    m = np.asarray(A[0])
    for a in A[1:]:
        m = np.einsum('stlr,uvrk->sutvlk', m, a)
        s = m.shape
        m = m.reshape(s[0] * s[1], s[2] * s[3], s[4], s[5])
    if m.shape[2] != 1 or m.shape[3] != 1:
        raise ValueError('outer bonds must have dimension 1')
    return m[:, :, 0, 0].copy()


def site_charges(qd, L):
    """Total physical charge of every basis state of an L-site chain (site 0 most significant)."""
    qd = np.asarray(qd, dtype=np.int64)
    q = np.zeros(1, dtype=np.int64)
    for _ in range(L):
        q = (q[:, None] + qd[None, :]).reshape(-1)
    return q


def kron_all(ops):
    m = np.identity(1)
    for o in ops:
        m = np.kron(m, o)
    return m


def is_isometry_left(a, tol=1e-10):
    """A[s,l,r] (or W[s,t,l,r]) reshaped (s*l[,..], r) has orthonormal columns."""
    a = np.asarray(a)
    M = a.reshape(-1, a.shape[-1])
    G = M.conj().T @ M
    return float(np.max(np.abs(G - np.identity(G.shape[0])))) if G.size else 0.0


def is_isometry_right(a, left_axis):
    """Tensor with the *left* bond on axis `left_axis`: rows (left bond) orthonormal."""
    a = np.moveaxis(np.asarray(a), left_axis, 0)
    M = a.reshape(a.shape[0], -1)
    G = M @ M.conj().T
    return float(np.max(np.abs(G - np.identity(G.shape[0])))) if G.size else 0.0


def decode_pair(q):
    """Inverse of (qa << 16) + qb for small |qb| (own decoding)."""
    q = int(q)
    qb = ((q + (1 << 15)) % (1 << 16)) - (1 << 15)
    qa = (q - qb) >> 16
    return qa, qb
