"""
Free-algebra polynomials {word (tuple of operator ids): Fraction} as the exact meaning of
operator chains, trees, automata and operator graphs.  Independent of pytenet's as_matrix().
"""

from fractions import Fraction

import numpy as np


class GQ:
    """Gaussian rational re + i*im with Fraction parts (exact complex coefficients); results with im == 0 collapse to Fraction."""
    __slots__ = ('re', 'im')

    def __init__(self, re, im):
        self.re, self.im = Fraction(re), Fraction(im)

    @staticmethod
    def of(x):
        if isinstance(x, GQ):
            return x
        if isinstance(x, complex):
            return GQ(Fraction(x.real), Fraction(x.imag))
        return GQ(Fraction(x), 0)

    @staticmethod
    def _norm(re, im):
        return re if im == 0 else GQ(re, im)

    def __add__(self, o):
        o = GQ.of(o)
        return GQ._norm(self.re + o.re, self.im + o.im)
    __radd__ = __add__

    def __neg__(self):
        return GQ(-self.re, -self.im)

    def __sub__(self, o):
        return self + (-GQ.of(o))

    def __rsub__(self, o):
        return GQ.of(o) + (-self)

    def __mul__(self, o):
        o = GQ.of(o)
        return GQ._norm(self.re * o.re - self.im * o.im, self.re * o.im + self.im * o.re)
    __rmul__ = __mul__

    def __eq__(self, o):
        try:
            o = GQ.of(o)
        except (TypeError, ValueError):
            return NotImplemented
        return self.re == o.re and self.im == o.im

    def __hash__(self):
        return hash((self.re, self.im))

    def __complex__(self):
        return complex(float(self.re), float(self.im))

    def __abs__(self):
        return abs(complex(self))

    def __repr__(self):
        return f'({self.re}{"+" if self.im >= 0 else "-"}{abs(self.im)}i)'


def frac(c):
    if isinstance(c, (Fraction, GQ)):
        return c
    if isinstance(c, (complex, np.complexfloating)):
        c = complex(c)
        if c.imag != 0:
            return GQ(Fraction(c.real), Fraction(c.imag))
        c = c.real
    return Fraction(float(c)) if not isinstance(c, int) else Fraction(c)


def padd(p, q, scale=1):
    r = dict(p)
    for w, c in q.items():
        r[w] = r.get(w, 0) + scale * c
    return r


def pclean(p):
    return {w: c for w, c in p.items() if c != 0}


def pconcat(p, q):
    r = {}
    for w1, c1 in p.items():
        for w2, c2 in q.items():
            w = w1 + w2
            r[w] = r.get(w, 0) + c1 * c2
    return r


def pequal(p, q, tol=0):
    p, q = pclean(p), pclean(q)
    if tol == 0:
        return p == q
    for w in set(p) | set(q):
        a, b = p.get(w, 0), q.get(w, 0)
        if abs(complex(a) - complex(b)) > tol * (1 + abs(complex(a)) + abs(complex(b))):
            return False
    return True


def pdiff(p, q):
    d = pclean(padd(p, q, -1))
    items = sorted(d.items(), key=lambda t: (len(t[0]), t[0]))[:4]
    return ', '.join(f'{w}:{complex(c):g}' for w, c in items)


def chain_poly(istart, word, coeff, L, oid_identity=0):
    w = (oid_identity,) * istart + tuple(word) + (oid_identity,) * (L - istart - len(word))
    return {w: frac(coeff)}


def edge_poly(opics):
    p = {}
    for oid, c in opics:
        p[(int(oid),)] = p.get((int(oid),), 0) + frac(c)
    return p


def graph_poly(graph):
    """Sum over all paths from terminal[0] to terminal[1] of the concatenated edge operators."""
    end = graph.nid_terminal[1]
    memo = {}

    def P(nid, depth):
        if nid == end:
            return {(): Fraction(1)}
        if nid in memo:
            return memo[nid]
        if depth > 64:
            raise RecursionError('graph has a cycle or is deeper than 64')
        tot = {}
        for eid in graph.nodes[nid].eids[1]:
            e = graph.edges[eid]
            tot = padd(tot, pconcat(edge_poly(e.opics), P(e.nids[1], depth + 1)))
        memo[nid] = tot
        return tot

    return pclean(P(graph.nid_terminal[0], 0))


def graph_layers(graph):
    """Layers of node ids by distance from terminal[0] following outgoing edges; None if inconsistent."""
    layers = [[graph.nid_terminal[0]]]
    seen = {graph.nid_terminal[0]: 0}
    while True:
        nxt = []
        for nid in layers[-1]:
            for eid in graph.nodes[nid].eids[1]:
                t = graph.edges[eid].nids[1]
                if t in seen:
                    if seen[t] != len(layers):
                        return None
                    continue
                seen[t] = len(layers)
                nxt.append(t)
        if not nxt:
            break
        layers.append(sorted(nxt))
        if len(layers) > 70:
            return None
    return layers


def graph_consistency(graph, require_connected=True):
    """Own check of internal consistency; returns list of problems (empty = consistent)."""
    bad = []
    nodes, edges = graph.nodes, graph.edges
    for k, n in nodes.items():
        if k != n.nid:
            bad.append(f'node key {k} != nid {n.nid}')
        for d in (0, 1):
            if len(set(n.eids[d])) != len(n.eids[d]):
                bad.append(f'node {k} lists an edge twice')
            for eid in n.eids[d]:
                if eid not in edges:
                    bad.append(f'node {k} refers to missing edge {eid}')
                elif edges[eid].nids[1 - d] != k:
                    bad.append(f'edge {eid} does not point back to node {k}')
    for k, e in edges.items():
        if k != e.eid:
            bad.append(f'edge key {k} != eid {e.eid}')
        for d in (0, 1):
            if e.nids[d] not in nodes:
                bad.append(f'edge {k} refers to missing node {e.nids[d]}')
            elif k not in nodes[e.nids[d]].eids[1 - d]:
                bad.append(f'node {e.nids[d]} does not list edge {k}')
        oids = [i for i, _ in e.opics]
        if oids != sorted(oids) or len(set(oids)) != len(oids):
            bad.append(f'edge {k} operator list not sorted/unique')
    if bad:
        return bad
    t0, t1 = graph.nid_terminal
    if t0 not in nodes or t1 not in nodes:
        return ['terminal missing']
    if nodes[t0].eids[0]:
        bad.append('start terminal has incoming edges')
    if nodes[t1].eids[1]:
        bad.append('end terminal has outgoing edges')
    layers = graph_layers(graph)
    if layers is None:
        bad.append('nodes are not layered consistently')
        return bad
    if require_connected:
        reach = {n for lay in layers for n in lay}
        if reach != set(nodes):
            bad.append(f'nodes not reachable from start: {sorted(set(nodes) - reach)[:5]}')
        for lay in layers[:-1]:
            for n in lay:
                if not nodes[n].eids[1]:
                    bad.append(f'dangling node {n}')
        if layers[-1] != [t1]:
            bad.append(f'last layer {layers[-1]} is not the end terminal {t1}')
    return bad


# ---------------------------------------------------------------------------------------
# faithful dense image: distinct words over <=4 letters -> linearly independent Kronecker products

I2 = np.identity(2)
SP = np.array([[0., 1.], [0., 0.]])
SM = np.array([[0., 0.], [1., 0.]])
NN = np.array([[0., 0.], [0., 1.]])
FAITHFUL = {0: I2, 1: SP, 2: SM, 3: NN}
FAITHFUL_QD = [0, 1]
# bond charge increment qr - ql carried by each letter under qd=[0,1] and the MPO rule qd[s]-qd[t]+ql-qr=0
LETTER_CHARGE = {0: 0, 1: -1, 2: 1, 3: 0}


def poly_dense(p, opmap, L, d):
    M = np.zeros((d ** L, d ** L), dtype=complex)
    for w, c in p.items():
        m = np.identity(1)
        for o in w:
            m = np.kron(m, opmap[o])
        M = M + complex(c) * m
    return M
