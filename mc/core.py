"""
Core of the bounded-exhaustive explorer (E1) and the plumbing shared with the
history explorer (E2).

A property module (props/cNN.py) exposes

    ID      = 'C11'
    LEVEL   = 'model_checking'
    def spaces(tier, seed) -> list[Space]

A Space is a finite enumerated set of cases, handed out in chunks to forked
workers.  For each case the real pytenet code is run and judged by an oracle
(`run_case(case, ctx)`), or - for history exploration - a whole sub-tree of
operation sequences is explored by `run_chunk(chunk, seed)`.
"""

import hashlib
import itertools
import json
import os
import signal
import sys
import time
import traceback
from collections import Counter

import numpy as np

REPO = os.environ.get('VERIF_REPO', '/repo')
VERIF = os.path.dirname(os.path.dirname(os.path.abspath(__file__)))

CASE_TIMEOUT_S = float(os.environ.get('VERIF_CASE_TIMEOUT', '900'))
# a per-case timeout is a verdict only for properties that state termination (C18 sets this); elsewhere the slow part is
# usually the dense oracle, and a timeout is reported as a harness error, never as a violation
TIMEOUT_IS_VIOLATION = False


def canon(obj):
    """Canonical JSON text of a case description."""
    return json.dumps(obj, sort_keys=True, separators=(',', ':'), default=_json_default)


def _json_default(o):
    if isinstance(o, (np.integer,)):
        return int(o)
    if isinstance(o, (np.floating,)):
        return float(o)
    if isinstance(o, complex):
        return {'re': o.real, 'im': o.imag}
    if isinstance(o, np.ndarray):
        return o.tolist()
    if isinstance(o, (set, frozenset)):
        return sorted(o)
    if hasattr(o, 'numerator') and hasattr(o, 'denominator'):
        return f'{o.numerator}/{o.denominator}'
    return repr(o)


def key64(text: str) -> int:
    return int.from_bytes(hashlib.blake2b(text.encode(), digest_size=8).digest(), 'little')


class CaseTimeout(Exception):
    pass


def _alarm_handler(signum, frame):
    raise CaseTimeout()


class Ctx:
    """Per-case context: value source, failure collection, outcome classes."""

    __slots__ = ('seed', 'ckey', 'fails', 'classes', 'calls', 'nontrivial', '_h', 'notes')

    def __init__(self, seed, ckey):
        self.seed = seed
        self.ckey = ckey
        self.fails = []
        self.classes = []
        self.calls = 0
        self.nontrivial = False
        self._h = hashlib.blake2b(digest_size=8)
        self.notes = []

    # --- deterministic "generic" values: keyed by (seed, case, k) ------------
    def rng(self, k=0):
        return np.random.default_rng([self.seed & 0xffffffff, self.ckey & 0xffffffff, self.ckey >> 32, k])

    # --- verdicts --------------------------------------------------------------
    def fail(self, clause, detail=None):
        self.fails.append((clause, None if detail is None else str(detail)[:400]))

    def check(self, cond, clause, detail=None):
        if not cond:
            self.fail(clause, detail)
        return bool(cond)

    def close(self, a, b, clause, tol=1e-10, scale=None):
        """|a-b| <= tol*(1+scale) entrywise in max norm."""
        a = np.asarray(a)
        b = np.asarray(b)
        if a.shape != b.shape:
            self.fail(clause, f'shape {a.shape} vs {b.shape}')
            return False
        if a.size == 0:
            return True
        if not (np.all(np.isfinite(a)) and np.all(np.isfinite(b))):
            self.fail(clause, 'non-finite value')
            return False
        if scale is None:
            scale = max(float(np.max(np.abs(a))), float(np.max(np.abs(b))))
        err = float(np.max(np.abs(a - b)))
        if err > tol * (1 + scale):
            self.fail(clause, f'err={err:.3e} scale={scale:.3e}')
            return False
        return True

    def cls(self, tag):
        self.classes.append(tag)

    def obs(self, *arrays):
        """Feed observed outputs into the determinism digest."""
        for a in arrays:
            if isinstance(a, np.ndarray):
                self._h.update(np.ascontiguousarray(a).tobytes())
            else:
                self._h.update(repr(a).encode())

    def digest(self):
        self._h.update(repr((self.fails, sorted(self.classes))).encode())
        return self._h.hexdigest()


class ChunkResult:
    __slots__ = ('n', 'calls', 'nontrivial_keys', 'classes', 'fails', 'digests', 'samples',
                 'out_of_domain', 'disabled', 'harness_errors', 'states', 'extra')

    def __init__(self):
        self.n = 0
        self.calls = 0
        self.nontrivial_keys = []
        self.classes = Counter()
        self.fails = []          # list of dict(case=..., fails=[(clause, detail)], sig=...)
        self.digests = []        # (key64, digest) for selected cases
        self.samples = []
        self.out_of_domain = 0
        self.disabled = 0
        self.harness_errors = []
        self.states = 0
        self.extra = Counter()


def _pytenet_frame(tb):
    """Innermost traceback frame that lies inside the pytenet package."""
    loc = None
    for fs in traceback.extract_tb(tb):
        if '/pytenet/' in fs.filename:
            loc = f'{os.path.basename(fs.filename)}:{fs.name}'
    return loc


class OutOfDomain(Exception):
    """Raised by run_case when the case is outside the documented input domain."""


class Space:
    """
    name      : label
    chunks    : iterable of picklable chunk descriptors
    expand    : chunk -> iterable of case descriptions (JSON-able)
    run_case  : (case, ctx) -> None
    bounds    : dict describing the enumerated bounds (goes to evidence)
    """

    def __init__(self, name, chunks, run_case=None, expand=None, bounds=None, run_chunk=None,
                 max_fail_per_chunk=500, sig=None):
        self.name = name
        self.chunks = chunks
        self.expand = expand or (lambda ch: ch)
        self.run_case = run_case
        self.bounds = bounds or {}
        self._run_chunk = run_chunk
        self.max_fail = max_fail_per_chunk
        self.sig = sig

    def run_one(self, case, seed):
        """Run a single case; returns Ctx (used by workers and by --replay)."""
        ck = key64(self.name + '|' + canon(case))
        ctx = Ctx(seed, ck)
        try:
            self.run_case(case, ctx)
        except OutOfDomain:
            ctx.classes = ['out_of_domain']
            ctx.nontrivial = False
            ctx.fails = []
            ctx.notes.append('ood')
        except CaseTimeout:
            if TIMEOUT_IS_VIOLATION:
                ctx.fail('termination', f'case did not finish within {CASE_TIMEOUT_S}s')
            else:
                ctx.notes.append('harness_error')
                ctx.fail('HARNESS', f'case did not finish within {CASE_TIMEOUT_S}s (oracle or implementation too slow for this bound)')
        except Exception as e:  # noqa: BLE001
            loc = _pytenet_frame(e.__traceback__)
            if loc is None:
                ctx.notes.append('harness_error')
                ctx.fail('HARNESS', ''.join(traceback.format_exception(e))[-1500:])
            else:
                ctx.fail(f'exc={type(e).__name__}@{loc}', str(e)[:200])
        return ctx

    def run_chunk(self, chunk, seed):
        if self._run_chunk is not None:
            return self._run_chunk(chunk, seed)
        res = ChunkResult()
        first = True
        for case in self.expand(chunk):
            signal.setitimer(signal.ITIMER_REAL, CASE_TIMEOUT_S)
            try:
                ctx = self.run_one(case, seed)
            finally:
                signal.setitimer(signal.ITIMER_REAL, 0)
            res.n += 1
            res.calls += ctx.calls
            if 'ood' in ctx.notes:
                res.out_of_domain += 1
                continue
            if ctx.nontrivial:
                res.nontrivial_keys.append(ctx.ckey)
            res.classes.update(ctx.classes)
            if first:
                res.digests.append((ctx.ckey, ctx.digest()))
                res.samples.append(case)
                first = False
            if ctx.fails:
                if 'harness_error' in ctx.notes:
                    res.harness_errors.append({'case': case, 'trace': ctx.fails[-1][1]})
                elif len(res.fails) < self.max_fail:
                    res.fails.append({'space': self.name, 'case': case, 'fails': ctx.fails})
                else:
                    res.extra['fails_not_listed'] += 1
        res.states = res.n - res.out_of_domain
        return res


def chunked(iterable, n):
    it = iter(iterable)
    while True:
        block = list(itertools.islice(it, n))
        if not block:
            return
        yield block


# -------------------------------------------------------------------------------------------------
# driver

_SPACES = None
_SEED = 0


def _worker_init():
    signal.signal(signal.SIGALRM, _alarm_handler)
    signal.signal(signal.SIGINT, signal.SIG_IGN)
    import warnings
    warnings.simplefilter('ignore')


def _work(task):
    si, chunk = task
    sp = _SPACES[si]
    t0 = time.perf_counter()
    try:
        res = sp.run_chunk(chunk, _SEED)
    except Exception as e:  # noqa: BLE001
        res = ChunkResult()
        res.harness_errors.append({'case': repr(chunk)[:300], 'trace': ''.join(traceback.format_exception(e))[-2000:]})
    return si, res, time.perf_counter() - t0


class RunSummary:
    def __init__(self):
        self.evaluations = 0
        self.calls = 0
        self.states = 0
        self.keys = []
        self.classes = Counter()
        self.fails = []
        self.samples = []
        self.out_of_domain = 0
        self.disabled = 0
        self.harness_errors = []
        self.extra = Counter()
        self.per_space = {}
        self.caps_hit = []
        self.exhaustive = True
        self.determinism_replays = 0
        self.determinism_mismatch = []
        self.cpu_s = 0.0


def run_spaces(spaces, seed, budget_s=None, nproc=None):
    """Run all spaces on a fork pool; returns RunSummary."""
    global _SPACES, _SEED
    import multiprocessing as mp
    _SPACES = spaces
    _SEED = seed
    nproc = nproc or int(os.environ.get('VERIF_NPROC', os.cpu_count() or 4))
    t0 = time.time()
    S = RunSummary()
    for sp in spaces:
        S.per_space[sp.name] = {'evaluations': 0, 'states': 0, 'transitions': 0, 'bounds': sp.bounds,
                                'completed': True}

    stop = {'flag': False}

    def tasks():
        for si, sp in enumerate(spaces):
            for ch in sp.chunks:
                if stop['flag']:
                    for sp2 in spaces[si:]:
                        S.per_space[sp2.name]['completed'] = False
                    return
                yield (si, ch)

    digests = {}
    first_tasks = []
    import queue
    ctx = mp.get_context('fork')
    done = queue.Queue()
    with ctx.Pool(nproc, initializer=_worker_init) as pool:
        gen = tasks()
        inflight = 0
        exhausted = False
        max_inflight = 3 * nproc
        while True:
            while not exhausted and inflight < max_inflight:
                try:
                    t = next(gen)
                except StopIteration:
                    exhausted = True
                    break
                if len(first_tasks) < 3 or (len(first_tasks) < 6 and t[0] != first_tasks[-1][0]):
                    first_tasks.append(t)
                pool.apply_async(_work, (t,), callback=done.put, error_callback=done.put)
                inflight += 1
            if inflight == 0:
                break
            item = done.get()
            inflight -= 1
            if isinstance(item, BaseException):
                S.harness_errors.append({'case': 'pool', 'trace': repr(item)})
                continue
            si, res, dt = item
            sp = spaces[si]
            S.evaluations += res.n
            S.calls += res.calls
            S.states += res.states
            S.cpu_s += dt
            ps = S.per_space[sp.name]
            ps['evaluations'] += res.n
            ps['states'] += res.states
            ps['transitions'] += res.calls
            if res.nontrivial_keys:
                S.keys.append(np.asarray(res.nontrivial_keys, dtype=np.uint64))
            S.classes.update(res.classes)
            S.extra.update(res.extra)
            S.out_of_domain += res.out_of_domain
            S.disabled += res.disabled
            if len(S.fails) < 100000:
                S.fails.extend(res.fails)
            else:
                S.extra['fails_not_listed'] += len(res.fails)
            S.harness_errors.extend(res.harness_errors[:5])
            if len(S.samples) < 12 and res.samples:
                S.samples.append({'space': sp.name, 'case': res.samples[0]})
            for k, d in res.digests:
                digests[(si, k)] = d
            if budget_s is not None and time.time() - t0 > budget_s and not stop['flag']:
                stop['flag'] = True
                S.caps_hit.append(f'wall-clock budget {budget_s}s reached; remaining chunks not dispatched')
                S.exhaustive = False
    # determinism: re-run the first chunks in THIS (parent) process and compare digests
    signal.signal(signal.SIGALRM, _alarm_handler)
    for si, ch in first_tasks:
        try:
            res = spaces[si].run_chunk(ch, seed)
        except Exception as e:  # noqa: BLE001
            S.harness_errors.append({'case': 'determinism replay', 'trace': repr(e)})
            continue
        for k, d in res.digests:
            S.determinism_replays += 1
            if digests.get((si, k)) != d:
                S.determinism_mismatch.append({'space': spaces[si].name, 'key': int(k)})
    S.wall_s = time.time() - t0
    return S
