"""
Finite value palette: structural value kinds for tensors / matrices, keyed deterministic generic numbers.
"""

import itertools

import numpy as np

from .dense import outer_sum

A3 = (-1, 0, 1)
A2 = (0, 1)
P3 = (0, 1, 2)


def charge_map(name):
    if name == 'id':
        return lambda q: np.asarray(q, dtype=np.int64)
    if name == 'neg':
        return lambda q: -np.asarray(q, dtype=np.int64)
    if name == 'enc':   # pair encoding (qa << 16) + qb with qb = -qa : includes negative second components, large values
        return lambda q: (np.asarray(q, dtype=np.int64) << 16) - np.asarray(q, dtype=np.int64)
    if name == 'big':
        return lambda q: np.asarray(q, dtype=np.int64) * 1000003 - 7
    raise ValueError(name)


def generic(rng, shape, kind):
    """Generic numbers: 'complex' or 'real' (entries O(1), none exactly zero)."""
    if kind == 'real':
        x = rng.normal(size=shape)
        x = np.where(np.abs(x) < 0.05, 0.37, x)
        return x
    x = rng.normal(size=shape) + 1j * rng.normal(size=shape)
    x = np.where(np.abs(x) < 0.05, 0.37 + 0.21j, x)
    return x / np.sqrt(2)


def masked_tensor(rng, qlists, kind='complex', zero_where=None):
    """Tensor with generic entries where the signed charge lists sum to zero, exact zeros elsewhere."""
    S = outer_sum(qlists)
    T = generic(rng, S.shape, 'real' if kind in ('real', 'int') else 'complex')
    if kind == 'int':
        T = np.rint(2 * T).astype(np.int64)
        T = np.where(T == 0, 1, T)
    T = np.where(S == 0, T, 0)
    return T


def block_matrix(rng, q0, q1, kind):
    """
    Matrix with A[i,j] != 0 only if q0[i] == q1[j].
    kinds: complex, real, rankdef (every charge block has rank <= 1), zeroblock (first shared block zero),
           zero (all zero), degenerate (every block a scaled partial isometry with equal singular values)
    """
    q0 = np.asarray(q0)
    q1 = np.asarray(q1)
    m, n = len(q0), len(q1)
    mask = q0[:, None] == q1[None, :]
    if kind == 'zero':
        return np.zeros((m, n), dtype=complex)
    if kind in ('complex', 'real'):
        return np.where(mask, generic(rng, (m, n), kind), 0)
    A = np.zeros((m, n), dtype=complex)
    shared = [q for q in np.unique(q0) if q in set(q1.tolist())]
    for bi, q in enumerate(shared):
        r = np.where(q0 == q)[0]
        c = np.where(q1 == q)[0]
        if kind == 'rankdef':
            blk = np.outer(generic(rng, len(r), 'complex'), generic(rng, len(c), 'complex'))
        elif kind == 'zeroblock':
            blk = np.zeros((len(r), len(c))) if bi == 0 else generic(rng, (len(r), len(c)), 'complex')
        elif kind == 'degenerate':
            k = min(len(r), len(c))
            u, _ = np.linalg.qr(generic(rng, (len(r), len(r)), 'complex'))
            v, _ = np.linalg.qr(generic(rng, (len(c), len(c)), 'complex'))
            blk = 0.5 * u[:, :k] @ v[:, :k].conj().T
        elif kind == 'dyadic':
            k = min(len(r), len(c))
            blk = np.zeros((len(r), len(c)))
            for i in range(k):
                blk[i, k - 1 - i] = 1.0
        else:
            raise ValueError(kind)
        A[np.ix_(r, c)] = blk
    return A


def vectors(n, alphabet):
    return itertools.product(alphabet, repeat=n)


def sortedness(q):
    q = list(q)
    return 'sorted' if q == sorted(q) else 'unsorted'
