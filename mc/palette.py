"""
Finite value palette: structural value kinds for tensors / matrices, keyed deterministic generic numbers.
"""

import itertools

import numpy as np

from .dense import outer_sum

A3 = (-1, 0, 1)
A2 = (0, 1)
P3 = (0, 1, 2)


def charge_map(name):
    if name == 'id':
        return lambda q: np.asarray(q, dtype=np.int64)
    if name == 'neg':
        return lambda q: -np.asarray(q, dtype=np.int64)
    if name == 'enc':   # pair encoding (qa << 16) + qb with qb = -qa : includes negative second components, large values
        return lambda q: (np.asarray(q, dtype=np.int64) << 16) - np.asarray(q, dtype=np.int64)
    if name == 'big':
        return lambda q: np.asarray(q, dtype=np.int64) * 1000003 - 7
    if name == 'huge':  # neighbouring integers above 2**53: not representable as float64
        return lambda q: np.asarray(q, dtype=np.int64) + (1 << 53)
    raise ValueError(name)


def generic(rng, shape, kind):
    """Generic numbers: 'complex' or 'real' (entries O(1), none exactly zero)."""
    if kind == 'real':
        x = rng.normal(size=shape)
        x = np.where(np.abs(x) < 0.05, 0.37, x)
        return x
    x = rng.normal(size=shape) + 1j * rng.normal(size=shape)
    x = np.where(np.abs(x) < 0.05, 0.37 + 0.21j, x)
    return x / np.sqrt(2)


def masked_tensor(rng, qlists, kind='complex', zero_where=None):
    """Tensor with generic entries where the signed charge lists sum to zero, exact zeros elsewhere."""
    S = outer_sum(qlists)
    T = generic(rng, S.shape, 'real' if kind in ('real', 'int') else 'complex')
    if kind == 'int':
        T = np.rint(2 * T).astype(np.int64)
        T = np.where(T == 0, 1, T)
    T = np.where(S == 0, T, 0)
    return T


def block_matrix(rng, q0, q1, kind):
    """
    Matrix with A[i,j] != 0 only if q0[i] == q1[j].
    kinds: complex, real, rankdef (every charge block has rank <= 1), zeroblock (first shared block zero),
           zero (all zero), degenerate (every block a scaled partial isometry with equal singular values)
    """
    q0 = np.asarray(q0)
    q1 = np.asarray(q1)
    m, n = len(q0), len(q1)
    mask = q0[:, None] == q1[None, :]
    if kind == 'zero':
        return np.zeros((m, n), dtype=complex)
    if kind in ('complex', 'real'):
        return np.where(mask, generic(rng, (m, n), kind), 0)
    A = np.zeros((m, n), dtype=complex)
    shared = [q for q in np.unique(q0) if q in set(q1.tolist())]
    for bi, q in enumerate(shared):
        r = np.where(q0 == q)[0]
        c = np.where(q1 == q)[0]
        if kind == 'rankdef':
            blk = np.outer(generic(rng, len(r), 'complex'), generic(rng, len(c), 'complex'))
        elif kind == 'zeroblock':
            blk = np.zeros((len(r), len(c))) if bi == 0 else generic(rng, (len(r), len(c)), 'complex')
        elif kind == 'degenerate':
            k = min(len(r), len(c))
            u, _ = np.linalg.qr(generic(rng, (len(r), len(r)), 'complex'))
            v, _ = np.linalg.qr(generic(rng, (len(c), len(c)), 'complex'))
            blk = 0.5 * u[:, :k] @ v[:, :k].conj().T
        elif kind == 'wide':
            # singular values spanning many orders of magnitude (exact powers of two): block b has 2^-(30 b) * (1, 1/2, 1/4, ...)
            k = min(len(r), len(c))
            u, _ = np.linalg.qr(generic(rng, (len(r), len(r)), 'complex'))
            v, _ = np.linalg.qr(generic(rng, (len(c), len(c)), 'complex'))
            blk = (u[:, :k] * (2.0 ** (-30 * bi - np.arange(k)))) @ v[:, :k].conj().T
        elif kind == 'near_isometry':
            k = min(len(r), len(c))
            u, _ = np.linalg.qr(generic(rng, (len(r), len(r)), 'complex'))
            v, _ = np.linalg.qr(generic(rng, (len(c), len(c)), 'complex'))
            blk = NEAR * u[:, :k] @ v[:, :k].conj().T
        elif kind == 'dyadic':
            k = min(len(r), len(c))
            blk = np.zeros((len(r), len(c)))
            for i in range(k):
                blk[i, k - 1 - i] = 1.0
        else:
            raise ValueError(kind)
        A[np.ix_(r, c)] = blk
    return A


def vectors(n, alphabet):
    return itertools.product(alphabet, repeat=n)


def sortedness(q):
    q = list(q)
    return 'sorted' if q == sorted(q) else 'unsorted'


# --------------------------------------------------------------------------------------
# structural enumeration of MPS / MPO layouts

def bond_profiles(L, Ds):
    """All interior bond-dimension profiles (D_1..D_{L-1}) over Ds."""
    return itertools.product(Ds, repeat=max(L - 1, 0))


def layouts(L, d, prof, alph, left_boundary=((0,),), right_alph=None, max_dev=None):
    """
    All charge layouts (qd, qD) for the given shape.  qd in alph^d, interior qD[i] in alph^{D_i},
    qD[0] from left_boundary, qD[L] in right_alph^1.
    max_dev: if given, only layouts with at most that many non-zero charge entries (deviation bound).
    """
    right_alph = alph if right_alph is None else right_alph
    axes = [list(itertools.product(alph, repeat=d)), [tuple(b) for b in left_boundary]]
    for D in prof:
        axes.append(list(itertools.product(alph, repeat=D)))
    axes.append([(r,) for r in right_alph])
    for combo in itertools.product(*axes):
        if max_dev is not None:
            dev = sum(1 for part in combo for x in part if x != 0)
            if dev > max_dev:
                continue
        qd = list(combo[0])
        qD = [list(c) for c in combo[1:]]
        yield qd, qD


NEAR = 1.0 + 2.0 ** -18     # within the default relative tolerance of np.allclose / np.isclose (1e-5) of 1, far from 1 at 1e-10


def blockwise_isometry(M, rowq, colq):
    """Replace every charge block of M (rows with charge q x columns with charge q) that has at least as many rows as columns
    by a matrix with orthonormal columns (own QR per block)."""
    M = np.array(M, dtype=complex)
    rowq, colq = np.asarray(rowq), np.asarray(colq)
    for q in np.unique(colq):
        c = np.where(colq == q)[0]
        r = np.where(rowq == q)[0]
        if len(r) >= len(c) > 0:
            Q, _ = np.linalg.qr(M[np.ix_(r, c)])
            M[np.ix_(r, c)] = Q
    return M


def _near_iso(T, qlists, right):
    """Tensor with physical axes first and (left, right) bond axes last: make it an isometry in the sweep direction where the
    block sizes allow, times NEAR (so that it is an isometry only under a tolerant comparison)."""
    S = outer_sum(qlists)          # zero where an entry is allowed
    nd = T.ndim
    if right:
        # columns = left bond axis; rows = (physical..., right bond)
        perm = list(range(nd - 2)) + [nd - 1, nd - 2]
        T, S = T.transpose(perm), S.transpose(perm)
    shp = T.shape
    M = T.reshape(-1, shp[-1])
    Sm = S.reshape(-1, shp[-1])
    # charge labels: rows and columns are connected iff Sm == 0; label each column by its index class, each row by the class it connects to
    colq = np.arange(shp[-1])
    first = {}
    for j in range(shp[-1]):
        key = tuple(np.where(Sm[:, j] == 0)[0].tolist())
        colq[j] = first.setdefault(key, j)
    rowq = np.full(M.shape[0], -1)
    for j in range(shp[-1]):
        rowq[Sm[:, j] == 0] = colq[j]
    M = blockwise_isometry(np.where(Sm == 0, M, 0), rowq, colq) * NEAR
    T = M.reshape(shp)
    if right:
        T = T.transpose(perm)
    return np.ascontiguousarray(T)


def _site_tensors(rng, qd, qD, kind, mpo):
    qd = np.asarray(qd, dtype=np.int64)
    A = []
    shared = {}
    base = 'complex' if kind in ('shared', 'near_iso_left', 'near_iso_right') else kind
    for i in range(len(qD) - 1):
        ql = np.asarray(qD[i], dtype=np.int64)
        qr = np.asarray(qD[i + 1], dtype=np.int64)
        qlists = [qd, -qd, ql, -qr] if mpo else [qd, ql, -qr]
        if kind == 'shared':
            # the same ndarray object at every site with the same charge lists (what `mps.A = L*[a]` gives a user)
            key = (tuple(ql.tolist()), tuple(qr.tolist()))
            if key not in shared:
                shared[key] = _fill(rng, qlists, base, qr)
            A.append(shared[key])
            continue
        T = _fill(rng, qlists, base, qr)
        if kind.startswith('near_iso'):
            T = _near_iso(T, qlists, kind.endswith('right'))
        A.append(T)
    return A


def mps_tensors(rng, qd, qD, kind):
    """Site tensors A[i][s,l,r] obeying qd[s]+qD[i][l]-qD[i+1][r]==0, filled according to kind."""
    return _site_tensors(rng, qd, qD, kind, False)


def mpo_tensors(rng, qd, qD, kind):
    return _site_tensors(rng, qd, qD, kind, True)


def _fill(rng, qlists, kind, qright):
    S = outer_sum(qlists)
    if kind == 'complex':
        T = generic(rng, S.shape, 'complex')
    elif kind == 'real':
        T = generic(rng, S.shape, 'real')
    elif kind == 'neg':
        T = -np.abs(generic(rng, S.shape, 'real'))
    elif kind == 'int':
        T = np.rint(3 * generic(rng, S.shape, 'real')).astype(np.int64)
        T = np.where(T == 0, 1, T)
    elif kind == 'ones':
        T = np.ones(S.shape, dtype=np.int64)
    elif kind == 'rankdef':
        T = generic(rng, S.shape, 'complex')
        # duplicate right-bond columns carrying the same charge -> rank-deficient bond
        qright = np.asarray(qright)
        for r in range(1, len(qright)):
            same = np.where(qright[:r] == qright[r])[0]
            if len(same):
                T[..., r] = T[..., same[0]]
    elif kind == 'zero':
        T = np.zeros(S.shape)
    elif kind in ('tiny', 'large'):
        # exact power-of-two scaling of the generic entries: every tensor of size 2^-20 resp. 2^20
        T = generic(rng, S.shape, 'complex') * 2.0 ** (-20 if kind == 'tiny' else 20)
    elif kind == 'fortran':
        # complex entries stored column-major (operations that reshape in place or hand views to LAPACK see a different layout)
        T = generic(rng, S.shape, 'complex')
        return np.asfortranarray(np.where(S == 0, T, 0))
    else:
        raise ValueError(kind)
    return np.where(S == 0, T, 0)


def reachable_alphabets(L, qd, q_left, q_right):
    """For each bond i the set of charges reachable from the left boundary with i sites and from which the right
    boundary charge is reachable with L-i sites (MPS rule: q_{i+1} = q_i + qd[s])."""
    left = [{q_left}]
    for _ in range(L):
        left.append({q + s for q in left[-1] for s in qd})
    right = [{q_right}]
    for _ in range(L):
        right.insert(0, {q - s for q in right[0] for s in qd})
    return [sorted(a & b) for a, b in zip(left, right)]


def sector_layouts(L, qd, prof, q_left=0, totals=None, extra=()):
    """
    Sector-consistent layouts: interior bond charges are drawn (all tuples: unsorted, repeated ...) from the reachable
    alphabet of that bond, optionally extended by `extra` unreachable charges.  Yields (qd, qD).
    """
    qd = list(qd)
    if totals is None:
        tl = {q_left}
        for _ in range(L):
            tl = {q + s for q in tl for s in qd}
        totals = sorted(tl)
    for tot in totals:
        alphs = reachable_alphabets(L, qd, q_left, tot)
        axes = []
        for i, D in enumerate(prof, start=1):
            al = sorted(set(alphs[i]) | set(extra))
            if not al:
                al = [0]
            axes.append(list(itertools.product(al, repeat=D)))
        for combo in itertools.product(*axes):
            yield qd, [[q_left]] + [list(c) for c in combo] + [[tot]]


def mps_structs(L, qd, Ds, totals=None, q_left=0, extra=()):
    """[(total, qD)] for all sector-consistent MPS bond layouts."""
    out = []
    for prof in bond_profiles(L, Ds):
        for _, qD in sector_layouts(L, qd, prof, q_left=q_left, totals=totals, extra=extra):
            out.append((qD[-1][0], qD))
    return out


def mpo_structs(L, qd, Ds, totals=None, q_left=0):
    """[(total, qD)] for MPO bond layouts: a site changes the bond charge by qd[s]-qd[t]."""
    diffs = sorted({a - b for a in qd for b in qd})
    out = []
    for prof in bond_profiles(L, Ds):
        for _, qD in sector_layouts(L, diffs, prof, q_left=q_left, totals=totals):
            out.append((qD[-1][0], qD))
    return out


# --------------------------------------------------------------------------------------
# bond profiles of a charge sector

def _count_maps(L, qd, q_left, total):
    """left[i][q] = number of site strings s_0..s_{i-1} reaching bond charge q; right[i][q] = number of strings s_i..s_{L-1} from q to total."""
    left = [{q_left: 1}]
    for _ in range(L):
        nxt = {}
        for q, c in left[-1].items():
            for s in qd:
                nxt[q + s] = nxt.get(q + s, 0) + c
        left.append(nxt)
    right = [{total: 1}]
    for _ in range(L):
        prv = {}
        for q, c in right[0].items():
            for s in qd:
                prv[q - s] = prv.get(q - s, 0) + c
        right.insert(0, prv)
    return left, right


def sector_profile(L, qd, q_left, total, kind):
    """
    Bond charge lists of a sector: kind in
      'one'      one charge per bond (D = 1 chain along the lexicographically first admissible path)
      'small'    every admissible charge once, at most two per bond
      'maximal'  sector-complete multiplicities min(#left strings, #right strings)
      'over'     maximal multiplicities + 1 (over-complete)
    Returns qD (list of lists) or None when the sector is empty.
    """
    left, right = _count_maps(L, qd, q_left, total)
    if total not in left[L]:
        return None
    qD = []
    path_q = q_left
    for i in range(L + 1):
        adm = sorted(q for q in left[i] if q in right[i])
        if i == 0:
            qD.append([q_left]); continue
        if i == L:
            qD.append([total]); continue
        if kind == 'one':
            # follow a path: choose the smallest admissible charge reachable from the previous one
            cand = sorted(q for q in adm if any(q - s == path_q for s in qd))
            path_q = cand[0]
            qD.append([path_q])
        elif kind == 'small':
            qD.append(adm[:2])
        elif kind in ('maximal', 'over'):
            lst = []
            for q in adm:
                m = min(left[i][q], right[i][q]) + (1 if kind == 'over' else 0)
                lst += [q] * m
            qD.append(lst)
        else:
            raise ValueError(kind)
    return qD


def multiplicities(q):
    m = {}
    for x in q:
        m[int(x)] = m.get(int(x), 0) + 1
    return m


def exactness_predicate(qd, qD, twosite=False):
    """
    Combinatorial predicate under which TDVP on this bond layout is exact (DESIGN.md, C09):
    there is a k with bonds 1..k left-complete and bonds k+1..L-1 (two-site: k+2..L-1) right-complete.
    """
    L = len(qD) - 1
    m = [multiplicities(q) for q in qD]
    # every admissible charge of the sector must be present on every bond ("admits every vector of its sector")
    left, right = _count_maps(L, list(qd), int(qD[0][0]), int(qD[-1][0]))
    for i in range(L + 1):
        adm = {q for q in left[i] if q in right[i]}
        if set(m[i]) != adm:
            return False

    def LC(i):
        for q, c in m[i].items():
            l = sum(m[i - 1].get(q - s, 0) for s in qd)
            if l != c:
                return False
        return True

    def RC(i):
        for q, c in m[i].items():
            r = sum(m[i + 1].get(q + s, 0) for s in qd)
            if r != c:
                return False
        return True

    lc = [True] + [LC(i) for i in range(1, L)]
    rc = [True] + [RC(i) for i in range(1, L)]
    for k in range(0, L):
        if all(lc[1:k + 1]) and all(rc[i] for i in range(k + (2 if twosite else 1), L)):
            return True
    return False
