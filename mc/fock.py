"""
Independent Fock-space references (scipy.sparse), Jordan-Wigner convention of the library's documentation/tests:
    c^dagger_i = 1 x ... x 1 x a^dagger x Z x ... x Z      (Z strings to the right, site 0 most significant)
"""

import functools

import numpy as np
from scipy import sparse

_I = sparse.identity(2, format='csr')
_Z = sparse.csr_matrix(np.array([[1., 0.], [0., -1.]]))
_AD = sparse.csr_matrix(np.array([[0., 0.], [1., 0.]]))   # |1><0|


@functools.lru_cache(maxsize=None)
def modes(n):
    """(creators, annihilators) for n fermionic modes."""
    cl = []
    for i in range(n):
        m = sparse.identity(1, format='csr')
        for j in range(n):
            m = sparse.kron(m, _I if j < i else (_AD if j == i else _Z), format='csr')
        cl.append(m)
    al = [c.conj().T.tocsr() for c in cl]
    return cl, al


def molecular(t, v):
    """sum t_ij c+_i a_j + 1/2 sum v_ijkl c+_i c+_j a_l a_k  (only non-zero coefficients are visited)."""
    t = np.asarray(t)
    v = np.asarray(v)
    n = t.shape[0]
    cl, al = modes(n)
    dim = 2 ** n
    H = sparse.csr_matrix((dim, dim), dtype=complex)
    for i, j in zip(*np.nonzero(t)):
        H = H + t[i, j] * (cl[i] @ al[j])
    nz = list(zip(*np.nonzero(v)))
    cc = {}
    aa = {}
    for (i, j, k, l) in nz:
        if (i, j) not in cc:
            cc[(i, j)] = cl[i] @ cl[j]
        if (l, k) not in aa:
            aa[(l, k)] = al[l] @ al[k]
        H = H + 0.5 * v[i, j, k, l] * (cc[(i, j)] @ aa[(l, k)])
    return H


def spin_molecular(t, v):
    """Spin-orbital version: mode 2i = (i, up), 2i+1 = (i, down); sum over spins sigma, tau as documented."""
    t = np.asarray(t)
    v = np.asarray(v)
    n = t.shape[0]
    cl, al = modes(2 * n)
    dim = 4 ** n
    H = sparse.csr_matrix((dim, dim), dtype=complex)
    for i, j in zip(*np.nonzero(t)):
        for s in (0, 1):
            H = H + t[i, j] * (cl[2 * i + s] @ al[2 * j + s])
    for (i, j, k, l) in zip(*np.nonzero(v)):
        for s in (0, 1):
            for u in (0, 1):
                H = H + 0.5 * v[i, j, k, l] * (cl[2 * i + s] @ cl[2 * j + u] @ al[2 * l + u] @ al[2 * k + s])
    return H
