"""
Reference model of the truncation rule (independent of pytenet.bond_ops.retained_bond_indices):

    discard singular values from the smallest upwards as long as the discarded relative weight
    (sum of discarded sigma^2 / sum of all sigma^2) stays <= tol.

Evaluated in exact rational arithmetic on the float singular values.  Because the implementation
works in floating point, a cumulative weight within `delta` of tol is a legitimately ambiguous
decision; the model therefore returns an admissible range [k_lo, k_hi] of kept counts.  When the
caller can prove that the floating point evaluation is exact (all sigma == 1.0 and their number a
power of 4) the range collapses (delta = 0).
"""

from fractions import Fraction


def kept_range(sigma, tol, delta=1e-12, etas=None):
    """
    Admissible range of kept counts.  The ambiguity margin of a cumulative weight w_j is  delta * w_j  (floating-point evaluation of the
    rule itself) plus the effect of an absolute error eta = 8 eps sigma_max on every singular value (what a backward-stable SVD
    guarantees: small singular values are only accurate relative to the largest one).  `etas` (optional, one per singular value)
    replaces that global absolute error by a per-value one: a block-diagonal SVD factorises every charge sector separately, so a
    singular value is accurate relative to the largest one of *its own sector*, however small that sector is next to the others.
    """
    if etas is not None:
        order = sorted(range(len(sigma)), key=lambda i: float(sigma[i]))
        etas = [Fraction(float(etas[i])) for i in order]
    s = sorted(float(x) for x in sigma)
    K = len(s)
    sq = [Fraction(x) ** 2 for x in s]
    tot = sum(sq)
    if tot == 0:
        return 0, 0, False
    exact = all(x == 1.0 for x in s) and K in (1, 4, 16, 64)
    d = Fraction(0) if exact else Fraction(delta)
    eta = Fraction(0) if exact else Fraction(8 * 2.220446049250313e-16 * s[-1])
    t = Fraction(float(tol))
    c = Fraction(0)
    u = Fraction(0)   # accumulated uncertainty of the cumulative sum of squares
    n_hi = 0   # number discardable with generous threshold
    n_lo = 0   # number discardable with strict threshold
    for j, (x, sx) in enumerate(zip(sq, s)):
        c += x
        if etas is not None and not exact:
            eta = etas[j]
        u += 2 * Fraction(sx) * eta + eta * eta
        w = c / tot
        m = d * w + u / tot
        if w - m <= t:
            n_hi += 1
        if w + m <= t:
            n_lo += 1
    return K - n_hi, K - n_lo, exact


def discarded_weight2(sigma, k):
    """Sum of squares of the len(sigma)-k smallest singular values."""
    s = sorted(float(x) for x in sigma)
    return sum(x * x for x in s[:len(s) - k])
