"""
E2 - explicit-state history explorer.

Breadth-first search over operation sequences applied to live pytenet objects.  A *world* is any
deep-copyable Python object; a *system* supplies

    enabled(world)            -> list of transitions (label, guard_ok, callable(world_copy, ctx) -> info)
    canon(world)              -> hashable exact canonical form (de-duplication key)
    check(before, after, label, info, ctx)   -> records failures in ctx (invariant + step-wise reference comparison)

Every (state, transition) pair up to the depth bound is executed on the real implementation; a
state already seen (same canonical form) is not expanded again.  Disabled transitions (guard false)
are counted, never silently dropped.  The history leading to each state is kept so that a violation
is a replayable operation list.
"""

import copy
import signal
from collections import deque

from . import core
from .core import ChunkResult, Ctx


class System:
    name = 'system'

    def enabled(self, world):
        raise NotImplementedError

    def canon(self, world):
        raise NotImplementedError

    def check_state(self, world, ctx):
        """Invariant evaluated on every state (including initial ones)."""

    def describe_init(self, init_desc):
        return init_desc


def explore_from(system, init_desc, build_init, depth, seed, space_name, max_states=None, time_limit=None):
    """BFS from one initial world.  Returns ChunkResult (n = transitions executed, states = distinct states)."""
    res = ChunkResult()
    w0 = build_init(init_desc)
    ck0 = core.key64(space_name + '|' + core.canon(init_desc))
    ctx0 = Ctx(seed, ck0)
    try:
        system.check_state(w0, ctx0)
    except Exception as e:  # noqa: BLE001
        ctx0.fail(f'exc={type(e).__name__}@init', str(e)[:200])
    if ctx0.fails:
        res.fails.append({'space': space_name, 'case': {'init': init_desc, 'ops': []}, 'fails': ctx0.fails})
    seen = {system.canon(w0)}
    res.nontrivial_keys.append(core.key64(repr(system.canon(w0))))
    frontier = deque([(w0, [])])
    res.states = 1
    digest = []
    last = []
    while frontier:
        world, hist = frontier.popleft()
        if len(hist) >= depth:
            continue
        for (label, ok, fn) in system.enabled(world):
            if not ok:
                res.disabled += 1
                continue
            nxt = copy.deepcopy(world)
            ctx = Ctx(seed, core.key64(space_name + '|' + core.canon([init_desc, hist, label])))
            signal.setitimer(signal.ITIMER_REAL, core.CASE_TIMEOUT_S)
            try:
                info = fn(nxt, ctx)
                system.check(world, nxt, label, info, ctx)
                system.check_state(nxt, ctx)
            except core.CaseTimeout:
                if core.TIMEOUT_IS_VIOLATION:
                    ctx.fail('termination', f'{label} did not finish')
                else:
                    res.harness_errors.append({'case': {'init': init_desc, 'ops': hist + [label]}, 'trace': f'{label} did not finish within {core.CASE_TIMEOUT_S}s'})
                    continue
            except Exception as e:  # noqa: BLE001
                loc = core._pytenet_frame(e.__traceback__)
                if loc is None:
                    import traceback
                    res.harness_errors.append({'case': {'init': init_desc, 'ops': hist + [label]},
                                               'trace': ''.join(traceback.format_exception(e))[-1500:]})
                    continue
                ctx.fail(f'exc={type(e).__name__}@{loc}', str(e)[:200])
            finally:
                signal.setitimer(signal.ITIMER_REAL, 0)
            res.n += 1
            res.calls += 1
            last = hist + [label]
            res.classes[label[0] if isinstance(label, (list, tuple)) else str(label)] += 1
            if ctx.fails:
                if len(res.fails) < 10:
                    res.fails.append({'space': space_name, 'case': {'init': init_desc, 'ops': hist + [label]}, 'fails': ctx.fails})
                else:
                    res.extra['fails_not_listed'] += 1
                continue   # do not expand a broken state
            key = system.canon(nxt)
            digest.append(hash(key))
            if key not in seen:
                seen.add(key)
                res.states += 1
                res.nontrivial_keys.append(core.key64(repr(key)))
                frontier.append((nxt, hist + [label]))
                if max_states and res.states >= max_states:
                    res.extra['state_cap_hit'] += 1
                    frontier.clear()
                    break
    res.samples.append({'init': init_desc, 'ops': last})
    res.digests.append((ck0, repr(hash(tuple(digest)))))
    return res


def replay_history(system, init_desc, build_init, ops, seed, space_name):
    """Re-run one operation list without the explorer; returns the list of failures."""
    world = build_init(init_desc)
    fails = []
    hist = []
    for label in ops:
        label_t = _tuplify(label)
        match = [(l, ok, fn) for (l, ok, fn) in system.enabled(world) if _tuplify(l) == label_t]
        if not match:
            return [('replay', f'transition {label} not enabled after {hist}')]
        l, ok, fn = match[0]
        nxt = copy.deepcopy(world)
        ctx = Ctx(seed, core.key64(space_name + '|' + core.canon([init_desc, hist, l])))
        try:
            info = fn(nxt, ctx)
            system.check(world, nxt, l, info, ctx)
            system.check_state(nxt, ctx)
        except Exception as e:  # noqa: BLE001
            loc = core._pytenet_frame(e.__traceback__)
            ctx.fail(f'exc={type(e).__name__}@{loc}', str(e)[:200])
        fails.extend(ctx.fails)
        if ctx.fails:
            break
        world = nxt
        hist.append(l)
    return fails


def _tuplify(x):
    if isinstance(x, (list, tuple)):
        return tuple(_tuplify(y) for y in x)
    return x
