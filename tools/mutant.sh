#!/bin/bash
# usage: tools/mutant.sh <patch.diff> [--tests] <ID> [<ID> ...]
# Applies the patch to a scratch copy of /repo (under /tmp), optionally runs the repo's test suite on it,
# runs the given quick checks against the copy via VERIF_REPO, then deletes the copy.
patch="$(readlink -f "$1")"; shift
runtests=0
if [ "$1" = "--tests" ]; then runtests=1; shift; fi
d=$(mktemp -d /tmp/mut.XXXXXX)
rsync -a --exclude .git --exclude '*.egg-info' --exclude __pycache__ /repo/ "$d/"
( cd "$d" && patch -p1 -s < "$patch" ) || { echo "PATCH FAILED"; rm -rf "$d"; exit 3; }
if [ $runtests = 1 ]; then
  ( cd "$d" && /venv/bin/python -m pytest -q -p no:cacheprovider -x --timeout=900 2>&1 | tail -3 )
fi
cd /verif
for id in "$@"; do
  out=$(VERIF_REPO="$d" ./check "$id" --tier quick 2>&1); rc=$?
  echo "== $id rc=$rc  $(echo "$out" | grep -c '^VIOLATION') violation lines"
  echo "$out" | grep -E "^VIOLATION|sig=|HARNESS" | head -4
  echo "$out" | grep -E "^$id tier" 
done
rm -rf "$d"
rm -rf /verif/replays/*/ 2>/dev/null
git -C /verif checkout -- evidence 2>/dev/null
