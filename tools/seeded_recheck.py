#!/usr/bin/env python3
"""
Re-run the check of its property against every seeded change kept under /verif/seeded (regression test of detection).

  tools/seeded_recheck.py [name ...] [--tier quick]

For each seeded/<name>/: patch.diff is applied to a scratch copy of /repo's HEAD (under /tmp, removed afterwards), the check of the
property named in meta.json is run against it (VERIF_REPO) and the outcome is written to seeded/RECHECK.json
({name: {property, rc, violation_lines, wall_s}}).  Exit 1 when a change is no longer detected (rc != 1).
"""
import json
import os
import shutil
import subprocess
import sys
import tempfile
import time

VERIF = os.path.dirname(os.path.dirname(os.path.abspath(__file__)))


def sh(cmd, cwd=None, env=None, timeout=7200):
    p = subprocess.run(cmd, shell=True, cwd=cwd, env=env, capture_output=True, text=True, timeout=timeout)
    return p.returncode, p.stdout + p.stderr


def main():
    args = [a for a in sys.argv[1:] if not a.startswith('--')]
    tier = 'quick'
    if '--tier' in sys.argv:
        tier = sys.argv[sys.argv.index('--tier') + 1]
        args = [a for a in args if a != tier]
    root = os.path.join(VERIF, 'seeded')
    names = args or sorted(n for n in os.listdir(root) if os.path.isdir(os.path.join(root, n)))
    outp = os.path.join(root, 'RECHECK.json')
    res = json.load(open(outp)) if os.path.exists(outp) else {}
    missed = []
    for n in names:
        meta = json.load(open(os.path.join(root, n, 'meta.json')))
        if meta.get('breaks_property_as_stated') is False:
            # kept for the record only (DESIGN.md 9.6, ninth wave: C20-12); the check is rightly silent on it
            res[n] = {'property': meta['property'], 'rc': None, 'note': 'does not violate the property as stated; not rechecked'}
            continue
        # (detecting_property: set where a change written against one property actually violates another one, see DESIGN.md 9.6)
        pid = meta.get('detecting_property', meta['property'])
        d = tempfile.mkdtemp(prefix='recheck.', dir='/tmp')
        try:
            rc, out = sh(f'git -C /repo archive HEAD | tar -x -C {d}')
            assert rc == 0, out
            patch = os.path.join(root, n, 'patch.diff')
            rc, out = sh(f'git apply --whitespace=nowarn {patch} 2>&1 || patch -p1 < {patch}', cwd=d)
            if rc != 0:
                res[n] = {'property': pid, 'rc': None, 'error': 'patch does not apply'}
                missed.append(n)
                print(f'{n}: PATCH DOES NOT APPLY')
                continue
            t0 = time.time()
            env = dict(os.environ, VERIF_REPO=d, PYTHONDONTWRITEBYTECODE='1')
            rc, out = sh(f'./check {pid} --tier {tier}', cwd=VERIF, env=env)
            res[n] = {'property': pid, 'tier': tier, 'rc': rc, 'violation_lines': out.count('VIOLATION property='),
                      'wall_s': round(time.time() - t0, 1)}
            print(f'{n}: check {pid} rc={rc} violations={res[n]["violation_lines"]}', flush=True)
            if rc != 1:
                missed.append(n)
        finally:
            shutil.rmtree(d, ignore_errors=True)
            sh(f'git -C {VERIF} checkout -- evidence; rm -rf {VERIF}/replays/*')
        json.dump(res, open(outp, 'w'), indent=1, sort_keys=True)
    print(f'rechecked {len(names)}; not detected: {missed}')
    return 1 if missed else 0


if __name__ == '__main__':
    sys.exit(main())
