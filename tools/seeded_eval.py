#!/usr/bin/env python3
"""
Confirm and evaluate one seeded change produced by a sub-agent.

  tools/seeded_eval.py <src_dir> <k> <PROPERTY_ID> [--checks C01,C05,...] [--tier quick]

<src_dir>/patch<k>.diff, demo<k>.py, notes<k>.txt are copied to /verif/seeded/<PROPERTY_ID>-<k>/ when the change is confirmed:
  1. the patch applies to a scratch copy of /repo's HEAD
  2. the repository's test suite passes on the patched copy
  3. the demonstration fails on the patched copy and passes on an unpatched copy
Then the listed checks (default: the property's own check) are run against the patched copy (VERIF_REPO) and the outcome is
recorded in meta.json.  Scratch copies live under /tmp and are removed.
"""
import argparse
import json
import os
import shutil
import subprocess
import sys
import tempfile
import time

VERIF = '/verif'


def sh(cmd, cwd=None, env=None, timeout=3600):
    p = subprocess.run(cmd, shell=True, cwd=cwd, env=env, capture_output=True, text=True, timeout=timeout)
    return p.returncode, p.stdout + p.stderr


def scratch():
    d = tempfile.mkdtemp(prefix='seed.', dir='/tmp')
    rc, out = sh(f"git -C /repo archive HEAD | tar -x -C {d}")
    assert rc == 0, out
    return d


def main():
    ap = argparse.ArgumentParser()
    ap.add_argument('src')
    ap.add_argument('k')
    ap.add_argument('pid')
    ap.add_argument('--checks', default=None)
    ap.add_argument('--tier', default='quick')
    ap.add_argument('--skip-tests', action='store_true')
    ap.add_argument('--name', default=None, help='directory name under /verif/seeded (default <ID>-<k>)')
    a = ap.parse_args()
    patch = os.path.join(a.src, f'patch{a.k}.diff')
    demo = os.path.join(a.src, f'demo{a.k}.py')
    notes = os.path.join(a.src, f'notes{a.k}.txt')
    for f in (patch, demo):
        if not os.path.exists(f):
            print('MISSING', f)
            return 2
    meta = {'property': a.pid, 'source': f'{a.src} change {a.k}', 'confirmed': False, 'ran': []}
    d = scratch()
    clean = scratch()
    env = dict(os.environ, PYTHONDONTWRITEBYTECODE='1', OMP_NUM_THREADS='2', OPENBLAS_NUM_THREADS='2')
    try:
        rc, out = sh(f'git apply --whitespace=nowarn {patch} 2>&1 || patch -p1 < {patch}', cwd=d)
        meta['ran'].append(f'apply patch to scratch copy of /repo HEAD: rc={rc}')
        if rc != 0:
            print('PATCH DOES NOT APPLY', out[-500:])
            return 3
        rc, files = sh("git diff --no-index --stat /dev/null /dev/null; true")
        if not a.skip_tests:
            for attempt in (1, 2, 3):
                t0 = time.time()
                rc, out = sh('/venv/bin/python -m pytest -q -p no:cacheprovider --timeout=900 2>&1 | tail -15', cwd=d, env=env)
                last = out.strip().splitlines()[-1] if out.strip() else ''
                failed = [l for l in out.splitlines() if l.startswith('FAILED')]
                meta['ran'].append(f'pytest on patched copy, attempt {attempt} ({time.time()-t0:.0f}s): {last} {failed}')
                meta['tests_with_change'] = last
                # test_eigh_krylov is flaky (~3%) on the unmodified library as well: retry when it is the only failure
                if failed and all('test_eigh_krylov' in f for f in failed):
                    continue
                break
            if ' passed' not in meta['tests_with_change'] or 'failed' in meta['tests_with_change']:
                print('TESTS FAIL WITH CHANGE:', out[-800:])
                meta['rejected'] = 'existing tests fail'
                print(json.dumps(meta, indent=1))
                return 4
        shutil.copy(demo, os.path.join(d, 'demo_seeded.py'))
        shutil.copy(demo, os.path.join(clean, 'demo_seeded.py'))
        rc1, out1 = sh('/venv/bin/python demo_seeded.py', cwd=d, env=env, timeout=900)
        rc0, out0 = sh('/venv/bin/python demo_seeded.py', cwd=clean, env=env, timeout=900)
        meta['ran'].append(f'demo on patched copy: rc={rc1}; demo on clean copy: rc={rc0}')
        meta['demo_output_with_change'] = out1.strip()[-400:]
        if rc1 == 0 or rc0 != 0:
            print(f'DEMO NOT DISCRIMINATING: with change rc={rc1}, without rc={rc0}\n{out0[-400:]}')
            meta['rejected'] = 'demo does not discriminate'
            print(json.dumps(meta, indent=1))
            return 5
        meta['confirmed'] = True
        checks = (a.checks.split(',') if a.checks else [a.pid])
        res = {}
        for cid in checks:
            t0 = time.time()
            env2 = dict(env, VERIF_REPO=d)
            rc, out = sh(f'./check {cid} --tier {a.tier}', cwd=VERIF, env=env2, timeout=7200)
            nviol = out.count('VIOLATION property=')
            first = [l for l in out.splitlines() if l.strip().startswith('sig=')][:2]
            res[cid] = {'rc': rc, 'violation_lines': nviol, 'first': first, 'wall_s': round(time.time() - t0, 1)}
            print(f'  check {cid}: rc={rc} violations={nviol} {first[:1]}')
        meta['checks'] = res
        meta['caught_by'] = sorted(c for c, r in res.items() if r['rc'] == 1)
        meta['ran'].append(f'./check <ID> --tier {a.tier} with VERIF_REPO=<patched copy> for {checks}')
    finally:
        shutil.rmtree(d, ignore_errors=True)
        shutil.rmtree(clean, ignore_errors=True)
        sh('git -C /verif checkout -- evidence; rm -rf /verif/replays/*')
    out_dir = os.path.join(VERIF, 'seeded', a.name or f'{a.pid}-{a.k}')
    os.makedirs(out_dir, exist_ok=True)
    shutil.copy(patch, os.path.join(out_dir, 'patch.diff'))
    shutil.copy(demo, os.path.join(out_dir, 'demo.py'))
    if os.path.exists(notes):
        meta['needs_to_manifest'] = open(notes).read().strip()
    # merge with previous meta (keep earlier check results)
    mp = os.path.join(out_dir, 'meta.json')
    if os.path.exists(mp):
        old = json.load(open(mp))
        oc = old.get('checks', {})
        oc.update(meta.get('checks', {}))
        meta['checks'] = oc
        meta['caught_by'] = sorted(c for c, r in oc.items() if r['rc'] == 1)
        if 'first_evaluation' in old:
            meta['first_evaluation'] = old['first_evaluation']
    json.dump(meta, open(mp, 'w'), indent=1)
    print(f'{a.name or (a.pid + "-" + a.k)}: confirmed={meta["confirmed"]} caught_by={meta.get("caught_by")}')
    return 0


if __name__ == '__main__':
    sys.exit(main())
