#!/usr/bin/env python3
"""Print the two tables of DESIGN.md 9.4 from evidence/*.json and evidence/thorough/*.json."""
import json
import os

HERE = os.path.dirname(os.path.dirname(os.path.abspath(__file__)))


def load(sub, pid):
    p = os.path.join(HERE, 'evidence', sub, pid + '.json')
    return json.load(open(p)) if os.path.exists(p) else None


def n(x):
    return f'{x:,}'.replace(',', ' ')


ids = [f'C{i:02d}' for i in range(1, 21)]
print('| id | states | transitions | wall |   | id | states | transitions | wall |')
print('|----|--------|-------------|------|---|----|--------|-------------|------|')
tot = 0
for a, b in zip(ids[:10], ids[10:]):
    row = []
    for pid in (a, b):
        e = load('', pid)
        c = e['coverage']
        tot += e['wall_s']
        row.append(f'{pid} | {n(c["states"])} | {n(c["transitions"])} | {e["wall_s"]:.0f} s')
    print('| ' + ' | | '.join(row) + ' |')
print(f'total quick wall: {tot:.0f} s\n')
print('| id | states | transitions | distinct non-trivial | wall | exhaustive within bounds |')
print('|----|--------|-------------|----------------------|------|--------------------------|')
tot = 0
for pid in ids:
    e = load('thorough', pid)
    if e is None:
        continue
    c = e['coverage']
    tot += e['wall_s']
    print(f'| {pid} | {n(c["states"])} | {n(c["transitions"])} | {n(c["distinct_nontrivial"])} | {e["wall_s"]:.0f} s | {c["exhaustive"]} |')
print(f'total thorough wall: {tot:.0f} s')
