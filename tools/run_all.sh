#!/bin/bash
# usage: tools/run_all.sh [quick|thorough] [ids...]   - runs checks sequentially, prints summary lines
tier=${1:-quick}; shift
ids="$@"; [ -z "$ids" ] && ids="C01 C02 C03 C04 C05 C06 C07 C08 C09 C10 C11 C12 C13 C14 C15 C16 C17 C18 C19 C20"
cd "$(dirname "$0")/.."
for id in $ids; do
  out=$(./check $id --tier $tier 2>&1); rc=$?
  echo "rc=$rc $(echo "$out" | grep -E "^$id tier")"
  echo "$out" | grep -E "^VIOLATION|^KNOWN|^HARNESS" | head -3
done
