#!/usr/bin/env python3
"""Regenerate /verif/MANIFEST.json from the table below (only properties whose props/cNN.py exists are claimed)."""
import json
import os

HERE = os.path.dirname(os.path.dirname(os.path.abspath(__file__)))

T = {
    'C01': ('Bounded-exhaustive exploration of the real orthonormalize(): every MPS/MPO shape, bond profile, charge layout over {-1,0,1} '
            'and value kind within the bounds is executed and compared with an independent dense contraction.',
            'exhaustive configuration enumeration + dense reference', '4/C01'),
    'C02': ('Explicit-state exploration of operation histories on live MPS/MPO worlds (BFS to a depth bound over a menu of the real public '
            'operations); the charge-rule invariant is evaluated by an independent mask check after every transition.',
            'explicit-state history exploration (BFS over operation sequences) + invariant', '4/C02'),
    'C03': ('Bounded-exhaustive enumeration of operand pairs (shapes, independent bond profiles, charge layouts, dtypes, options); each result '
            'compared with dense linear algebra.', 'exhaustive configuration enumeration + dense reference', '4/C03'),
    'C04': ('Bounded-exhaustive enumeration of bra/ket/operator configurations and of every site position and local-problem kind; compared '
            'with dense scalars and the projected operator P^dagger H P.', 'exhaustive configuration enumeration + dense reference', '4/C04'),
    'C05': ('All ordered operator-chain lists (programs) up to the stated bounds are compiled by the real code and compared with an exact '
            'rational path polynomial and with a faithful dense operator map.', 'exhaustive program enumeration + exact symbolic reference', '4/C05'),
    'C06': ('Every model x every lattice size within dense reach x every parameter triple of the palette (values, argument types, units) '
            'compared with an independent kron / Jordan-Wigner construction; every small construction repeated after mutating its first result.',
            'exhaustive configuration enumeration + dense reference', '4/C06'),
    'C07': ('Every orbital count within reach x both build paths x every one-hot coefficient tensor (complete term alphabet) and generic '
            'tensors compared with a sparse Fock-space reference; every rotated pair for the gauge transform.',
            'exhaustive configuration enumeration + Fock-space reference', '4/C07'),
    'C08': ('Bounded-exhaustive enumeration of (model, L, bond profile, sector, dt, steps, Krylov dimension, integrator) plus repeated-call '
            'histories; conservation laws judged against dense quantities.', 'exhaustive configuration + history enumeration', '4/C08'),
    'C09': ('Every complete-manifold configuration within dense reach (exactness predicate computed combinatorially) compared with scipy expm; '
            'reversibility on all bond profiles; sub-step schedule trace compared with a reference schedule model.',
            'exhaustive configuration enumeration + schedule-model conformance', '4/C09'),
    'C10': ('Bounded-exhaustive enumeration of DMRG configurations and repeated invocations; energies judged against dense sector ground '
            'states.', 'exhaustive configuration + history enumeration', '4/C10'),
    'C11': ('Every matrix shape up to the bound x every pair of charge vectors over a 3-letter alphabet x charge maps x value kinds run through '
            'the real block QR.', 'exhaustive configuration enumeration + dense reference', '4/C11'),
    'C12': ('The C11 structural space x spectrum kinds x tolerance set (including exact cumulative weights) run through the real block SVD '
            'and compared with a ten-line truncation-rule model on per-block dense SVDs.',
            'exhaustive configuration enumeration + truncation-rule reference model', '4/C12'),
    'C13': ('Bounded-exhaustive enumeration of states (shape, profile, charges, spectrum kind) x tolerance x mode for compress/from_vector.',
            'exhaustive configuration enumeration + dense Schmidt reference', '4/C13'),
    'C14': ('Every (n, m<=n) x matrix kind x start kind x map presentation x units of map and start vector (exact powers of two) within the bounds run through the real Lanczos/Arnoldi.',
            'exhaustive configuration enumeration + dense reference', '4/C14'),
    'C15': ('Every (n, m<=n+2 and beyond) x matrix kind x start kind x dt x flag x units of map and start vector run through eigh_krylov/expm_krylov.',
            'exhaustive configuration enumeration + dense reference', '4/C15'),
    'C16': ('Explicit-state search over the real OpGraph: BFS over rewrite sequences from every small layered graph with colliding ids; '
            'states de-duplicated by exact canonical form; path-polynomial invariant on every transition.',
            'explicit-state search (BFS, canonical-form dedup) on the implementation', '4/C16'),
    'C17': ('Every operator tree / tree pair / automaton within the bounds is compiled by the real code and compared with an exact '
            'path polynomial and its dense image.', 'exhaustive program enumeration + exact symbolic reference', '4/C17'),
    'C18': ('Every bipartite graph up to 4x4 (quick) / 5x5, 4x6 (thorough), every short edge sequence with repetitions, and parametric '
            'families up to 60x60 are run through the real matching / cover code and judged by Hall-defect optimum.',
            'exhaustive input enumeration + independent optimum (Hall defect / Kuhn)', '4/C18'),
    'C19': ('Every public operation x operand kind x every follow-up mutation of the result; byte snapshots and memory-sharing graph.',
            'exhaustive enumeration of (operation, operand kind, follow-up mutation) + byte snapshots', '4/C19'),
    'C20': ('Every model x every lattice size within dense reach (rank of the documented dense operator) and a list of sizes beyond it '
            '(rank from an own QR/SVD canonicalisation of the MPO tensors, cross-checked against the dense oracle on every small case): '
            'bond dimension vs. operator Schmidt rank; the whole C05 chain-list space and the C16 graph space for the inequalities.',
            'exhaustive configuration/program enumeration + SVD rank reference', '4/C20'),
}

NOTE = ('Bounded: sizes and alphabets as listed in evidence.coverage.bounds; continuous data values come from a finite palette '
        '(DESIGN.md 2.3). Trusted: numpy/scipy of /venv, the oracle code under /verif/mc and /verif/props.')


def main():
    checks = []
    na = []
    for pid, (text, tech, ref) in sorted(T.items()):
        if os.path.exists(os.path.join(HERE, 'props', pid.lower() + '.py')):
            checks.append({
                'property_id': pid,
                'quick_cmd': f'./check {pid} --tier quick',
                'thorough_cmd': f'./check {pid} --tier thorough',
                'evidence_file': f'/verif/evidence/{pid}.json',
                'replay_cmd_template': f'./check {pid} --replay {{path}}',
                'engine': 'mc',
                'level_claimed': {'category': 'model_checking', 'text': text, 'design_ref': ref},
                'level_note': NOTE,
                'technique': tech,
            })
        else:
            na.append({'property_id': pid, 'reason': 'check not built yet (work in progress); model checking applies, see DESIGN.md section 4'})
    m = {
        'version': 1,
        'setup_cmd': 'true',
        'hooks': {
            'guard': 'PYTENET_VERIF',
            'enable': 'no source hooks are needed; checks import /repo working tree via PYTHONPATH',
            'baseline_off_cmd': 'cd /repo && /venv/bin/python -m pytest -ra -q -p no:cacheprovider --timeout=900',
            'source_commits': [],
            'add_only': True,
        },
        'engines': [{
            'name': 'mc', 'path': '/verif/mc',
            'serves_properties': [c['property_id'] for c in checks],
            'kind_free_text': 'home-made bounded-exhaustive explorer for Python: E1 configuration explorer (mc/core.py) and E2 '
                              'explicit-state history explorer (mc/history.py) running the real pytenet code',
        }],
        'checks': checks,
        'not_applicable': na,
        'notes': ('See DESIGN.md (section 9 = as built). KNOWN_FINDINGS.txt: eight defects found by the checks and repaired in /repo (fixed: lines, F1-F8) '
                  'and three deviations that are recorded, not repaired (known: lines): K1/K2 for C09 (projector-splitting integrator) and K3 for '
                  'C14/C15 (absolute Krylov breakdown threshold); C09, C14 and C15 print KNOWN-FINDING lines and exit 0. '
                  '/verif/seeded/ holds 193 property-breaking changes written by independent sub-agents (nine waves; plus one change kept for the record that does not violate its property as stated), all detected; '
                  'tools/seeded_recheck.py re-runs them against the current checks.'),
    }
    with open(os.path.join(HERE, 'MANIFEST.json'), 'w') as fh:
        json.dump(m, fh, indent=1)
    print('claimed', [c['property_id'] for c in checks], 'na', [n['property_id'] for n in na])


if __name__ == '__main__':
    main()
