#!/usr/bin/env python3
"""Validate MANIFEST.json and evidence/*.json against the schemas (dev helper; run with python3-vt)."""
import json, sys, glob, jsonschema
ms = json.load(open('/root/.vp/MANIFEST.schema.json'))
es = json.load(open('/root/.vp/EVIDENCE.schema.json'))
ok = True
try:
    m = json.load(open('/verif/MANIFEST.json'))
    jsonschema.validate(m, ms)
    print('MANIFEST ok:', len(m['checks']), 'checks')
except Exception as e:
    ok = False; print('MANIFEST INVALID', str(e)[:500])
for f in sorted(glob.glob('/verif/evidence/*.json') + glob.glob('/verif/evidence/thorough/*.json')):
    try:
        jsonschema.validate(json.load(open(f)), es)
        print('ok', f)
    except Exception as e:
        ok = False; print('INVALID', f, str(e)[:500])
sys.exit(0 if ok else 1)
