#!/usr/bin/env python3
"""tools/mkmut.py <name> <file relative to /repo> <old> <new> [count]  -> writes mutants/<name>.diff (unified diff, -p1)"""
import sys, difflib, os
name, rel, old, new = sys.argv[1:5]
cnt = int(sys.argv[5]) if len(sys.argv) > 5 else 1
old = old.encode().decode('unicode_escape'); new = new.encode().decode('unicode_escape')
src = open(os.path.join('/repo', rel)).read()
assert src.count(old) >= 1, f'pattern not found ({src.count(old)})'
dst = src.replace(old, new, cnt)
d = difflib.unified_diff(src.splitlines(True), dst.splitlines(True), 'a/' + rel, 'b/' + rel)
open(f'/verif/mutants/{name}.diff', 'w').write(''.join(d))
print('wrote', name)
